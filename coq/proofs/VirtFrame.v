(** VirtFrame.v — expressions of the read-only fragment that do not mention virtual signals do not notice them:
    if such an expression has a value on the state with every virtual signal removed, it has the same value on the
    state itself, which it leaves as it was (C13: the body of a virtual signal is a function of the time point,
    whatever the caches hold). *)
From WalModel Require Import Eval.
From WalModel.proofs Require Import VcdProofs TraceProofs RevalProofs ListProofs Balanced ReadOnly ScanProofs ContInv ReadOnlyAt VirtualProofs VirtualOrder.
Local Open Scope Z_scope.

Definition strip_trace (t : trace) : trace := set_virt t [].
Definition strip_traces (ts : list (string * trace)) : list (string * trace) := map (fun p => (fst p, strip_trace (snd p))) ts.
Definition strip (st : state) : state := upd_cont st (with_traces (st_cont st) (strip_traces (c_traces (st_cont st)))).

(** names whose value lists the signals of a trace (they would show the virtual signals) *)
Definition listing : list string := ["SIGNALS"; "SIGNALS-NO-ALIAS"; "VIRTUAL-SIGNALS"; "LOCAL-SIGNALS"].
(** n is not an alias, does not address a virtual signal and is not a listing name *)
Definition clean (st : state) (n : string) : Prop :=
  alookup n (st_aliases st) = None /\
  match address (st_cont st) n with
  | AOne t sig => amem sig (tr_virt t) = false /\ smem sig listing = false
  | _ => True
  end.

Lemma alookup_strip tid ts : alookup tid (strip_traces ts) = option_map strip_trace (alookup tid ts).
Proof. induction ts as [|[k t] r IH]; [reflexivity|]. cbn [strip_traces map fst snd alookup]. destruct (String.eqb tid k); [reflexivity|exact IH]. Qed.

Lemma address_strip c n :
  address (with_traces c (strip_traces (c_traces c))) n =
  match address c n with AOne t sig => AOne (strip_trace t) sig | ABadTid => ABadTid | ANone => ANone end.
Proof.
  unfold address. cbn [with_traces c_ntraces c_traces]. destruct ((c_ntraces c =? 1) && negb (has_sep n)).
  - destruct (c_traces c) as [|[k t] r]; reflexivity.
  - destruct (ssplit_first "^"%char n) as [[tid sig]|]; [|reflexivity]. rewrite alookup_strip.
    destruct (alookup tid (c_traces c)); reflexivity.
Qed.

Lemma smem_listing sig : smem sig listing = false ->
  String.eqb sig "SIGNALS" = false /\ String.eqb sig "SIGNALS-NO-ALIAS" = false /\
  String.eqb sig "VIRTUAL-SIGNALS" = false /\ String.eqb sig "LOCAL-SIGNALS" = false.
Proof.
  unfold listing. cbn [smem]. intros H.
  repeat match type of H with (_ || _) = false => apply orb_false_iff in H as [? H] end. tauto.
Qed.

Lemma trace_has_strip t sig : amem sig (tr_virt t) = false -> trace_has (strip_trace t) sig = trace_has t sig.
Proof. intros H. unfold trace_has. cbn [strip_trace set_virt tr_raw tr_virt]. rewrite H. reflexivity. Qed.

Lemma trace_value_strip k t sig scope : amem sig (tr_virt t) = false -> smem sig listing = false ->
  trace_signal_value k (strip_trace t) sig scope = trace_signal_value k t sig scope.
Proof.
  intros Hv Hl. destruct (smem_listing sig Hl) as (E1 & E2 & E3 & E4).
  unfold trace_signal_value. cbn [strip_trace set_virt tr_index tr_max tr_tid tr_file tr_ts tr_scopes tr_raw tr_virt].
  rewrite E1, E2, E3, E4, Hv. reflexivity.
Qed.

Lemma strip_length ts : zlen (strip_traces ts) = zlen ts.
Proof. unfold zlen, strip_traces. rewrite map_length. reflexivity. Qed.

Lemma cwf_strip c : cwf c -> cwf (with_traces c (strip_traces (c_traces c))).
Proof.
  rewrite !cwf_parts. cbn [with_traces c_traces c_ntraces]. intros (Hn & Ht & Hl). repeat split.
  - unfold strip_traces. rewrite map_map. cbn [fst]. exact Hn.
  - intros k t Hin. unfold strip_traces in Hin. apply in_map_iff in Hin as ([k0 t0] & E & Hin). injection E as <- <-.
    cbn [fst snd strip_trace set_virt tr_tid]. apply (Ht _ _ Hin).
  - rewrite strip_length. exact Hl.
Qed.

Lemma okst_strip st : cwf (st_cont st) -> okst (strip st).
Proof.
  intros H. split.
  - intros k t Hin. unfold strip in Hin. cbn in Hin. unfold strip_traces in Hin. apply in_map_iff in Hin as ([k0 t0] & E & _).
    injection E as _ <-. reflexivity.
  - apply (cwf_strip _ H).
Qed.

(** frames, arrays, scope, aliases are not touched by a change of the container *)
Lemma find_frame_cont n c : forall st id name, find_frame n (upd_cont st c) id name = find_frame n st id name.
Proof.
  induction n as [|n IH]; intros st id name; [reflexivity|]. cbn [find_frame].
  change (get_frame (upd_cont st c) id) with (get_frame st id). destruct (get_frame st id) as [f|]; [|reflexivity].
  destruct (amem name (f_binds f)); [reflexivity|]. destruct (f_parent f); [apply IH|reflexivity].
Qed.
Lemma lookup_frame_cont st c id name : lookup_frame (upd_cont st c) id name = lookup_frame st id name.
Proof. unfold lookup_frame. change (st_frames (upd_cont st c)) with (st_frames st). apply find_frame_cont. Qed.
Lemma hop_cont n c : forall st id, hop (upd_cont st c) id n = hop st id n.
Proof.
  induction n as [|n IH]; intros st id; [reflexivity|]. cbn [hop]. change (get_frame (upd_cont st c) id) with (get_frame st id).
  destruct (get_frame st id) as [f|]; [|reflexivity]. destruct (f_parent f); [apply IH|reflexivity].
Qed.

(** stepping all traces commutes with removing the virtual signals *)
Lemma trace_step_strip t n : trace_step (strip_trace t) n = (strip_trace (fst (trace_step t n)), snd (trace_step t n)).
Proof.
  unfold trace_step. cbn [strip_trace set_virt tr_index tr_max tr_tid].
  destruct ((tr_index t + n <? 0) || (tr_max t <? tr_index t + n)); reflexivity.
Qed.
Lemma step_all_strip ts n : step_all (strip_traces ts) n = (strip_traces (fst (step_all ts n)), snd (step_all ts n)).
Proof.
  induction ts as [|[k t] r IH]; [reflexivity|]. cbn [strip_traces map fst snd step_all].
  change (map (fun p => (fst p, strip_trace (snd p))) r) with (strip_traces r). rewrite IH, trace_step_strip.
  destruct (trace_step t n) as [t' e]. destruct (step_all r n) as [r' es]. reflexivity.
Qed.
Lemma indices_strip ts : map (fun p : string * trace => (tr_tid (snd p), tr_index (snd p))) (strip_traces ts)
                          = map (fun p : string * trace => (tr_tid (snd p), tr_index (snd p))) ts.
Proof. unfold strip_traces. rewrite map_map. apply map_ext. intros [k t]. reflexivity. Qed.
Definition strip_cont (c : container) : container := with_traces c (strip_traces (c_traces c)).
Lemma cont_step_strip c off c2 e : cont_step (cont_store c) off None = Some (c2, e) ->
  cont_step (cont_store (strip_cont c)) off None = Some (strip_cont c2, e).
Proof.
  unfold cont_step, cont_store, strip_cont, with_traces, cont_indices. cbn [c_traces c_ntraces c_stack]. intros H.
  destruct (step_all (c_traces c) off) as [ts es] eqn:E. injection H as <- <-. cbn [c_traces c_ntraces c_stack].
  rewrite step_all_strip, E, indices_strip. reflexivity.
Qed.
Lemma all_in_range_strip ts off : all_in_range (strip_traces ts) off = all_in_range ts off.
Proof. induction ts as [|[k t] r IH]; [reflexivity|]. cbn [strip_traces map fst snd all_in_range strip_trace set_virt tr_max tr_index]. rewrite <- IH. reflexivity. Qed.

Lemma step_all_lookup ts n : forall id, alookup id (fst (step_all ts n)) = option_map (fun t => fst (trace_step t n)) (alookup id ts).
Proof.
  induction ts as [|[k t] r IH]; intros id; [reflexivity|]. cbn [step_all]. destruct (trace_step t n) as [t' e] eqn:Et.
  destruct (step_all r n) as [r' es] eqn:Er. cbn [fst alookup]. destruct (String.eqb id k); [cbn [option_map]; rewrite Et; reflexivity|]. apply (IH id).
Qed.
Lemma trace_step_virt t n : tr_virt (fst (trace_step t n)) = tr_virt t.
Proof. unfold trace_step. destruct ((tr_index t + n <? 0) || (tr_max t <? tr_index t + n)); reflexivity. Qed.

Lemma address_moved c off c2 e n : cont_step (cont_store c) off None = Some (c2, e) ->
  address c2 n = match address c n with AOne t sig => AOne (fst (trace_step t off)) sig | ABadTid => ABadTid | ANone => ANone end.
Proof.
  unfold cont_step, cont_store. cbn [c_traces]. intros H. destruct (step_all (c_traces c) off) as [ts es] eqn:E. injection H as <- _.
  unfold address. cbn [with_traces c_ntraces c_traces]. destruct ((c_ntraces c =? 1) && negb (has_sep n)).
  - destruct (c_traces c) as [|[k t] r]; [cbn in E; injection E as <- _; reflexivity|].
    cbn [step_all] in E. destruct (trace_step t off) as [t' e']. destruct (step_all r off) as [r' es']. injection E as <- _. reflexivity.
  - destruct (ssplit_first "^"%char n) as [[tid sig]|]; [|reflexivity].
    replace ts with (fst (step_all (c_traces c) off)) by (rewrite E; reflexivity). rewrite step_all_lookup.
    destruct (alookup tid (c_traces c)); reflexivity.
Qed.

Lemma clean_moved st off c2 e n : cont_step (cont_store (st_cont st)) off None = Some (c2, e) -> clean st n -> clean (upd_cont st c2) n.
Proof.
  intros Hs [Ha Hc]. split; [exact Ha|]. cbn [upd_cont st_cont]. rewrite (address_moved _ _ _ _ n Hs).
  destruct (address (st_cont st) n) as [t sig| |]; [|exact I|exact I]. rewrite trace_step_virt. exact Hc.
Qed.

Section Names.
  Variable names : list string.
  Definition okF (st : state) : Prop := cwf (st_cont st) /\ Forall (clean st) names.
  (** a value on the stripped state is the value on the state, which stays as it is *)
  Definition fr {A} (m : M A) : Prop := forall st a, okF st -> m (strip st) = Ok a (strip st) -> m st = Ok a st.

  Lemma fr_ret {A} (a : A) : fr (ret a). Proof. intros st b _ H. injection H as <-. reflexivity. Qed.
  Lemma fr_fail {A} e : fr (@fail A e). Proof. intros st b _ H. discriminate. Qed.
  Lemma fr_unm {A} w : fr (@unm A w). Proof. intros st b _ H. discriminate. Qed.
  Lemma fr_fuel {A} : fr (fun _ : state => @Fuel A). Proof. intros st b _ H. discriminate. Qed.
  Lemma fr_bind {A B} (m : M A) (k : A -> M B) : pure m -> fr m -> (forall a, fr (k a)) -> fr (bind m k).
  Proof.
    intros Hp Hm Hk st b Hok H. unfold bind in H |- *. destruct (m (strip st)) as [a s1| | |] eqn:E; try discriminate.
    pose proof (Hp _ _ _ (okst_strip st (proj1 Hok)) E) as ->. rewrite (Hm st a Hok E). apply (Hk a st b Hok H).
  Qed.
  Lemma fr_get {A} (K : state -> M A) : (forall s0, fr (K s0)) -> (forall s0 s, K (strip s0) s = K s0 s) -> fr (bind get_st K).
  Proof. intros H1 H2 st a Hok H. unfold bind, get_st in *. rewrite H2 in H. apply (H1 st st a Hok H). Qed.
  Lemma fr_assert b : fr (assert b). Proof. unfold assert. destruct b; [apply fr_ret|apply fr_fail]. Qed.
  Lemma fr_require b e : fr (require b e). Proof. unfold require. destruct b; [apply fr_ret|apply fr_fail]. Qed.
  Lemma fr_of_opt {A} (o : option A) e : fr (of_opt o e). Proof. unfold of_opt. destruct o; [apply fr_ret|apply fr_fail]. Qed.
  Lemma fr_mapM {A B} (f : A -> M B) l : Forall (fun a => pure (f a) /\ fr (f a)) l -> fr (mapM f l).
  Proof.
    induction 1 as [|a l [Hp Ha] Hl IH]; cbn [mapM]; [apply fr_ret|].
    apply fr_bind; [exact Hp|exact Ha|intros y]. apply fr_bind; [|exact IH|intros ys; apply fr_ret].
    apply pure_mapM. apply Forall_forall. intros z Hz. rewrite Forall_forall in Hl. apply (Hl z Hz).
  Qed.
  Lemma fr_env_read id n : fr (env_read id n).
  Proof.
    intros st a _ H. unfold env_read in *. unfold strip in H. rewrite lookup_frame_cont in H.
    destruct (lookup_frame st id n) as [fid|]; [|discriminate].
    change (get_frame (upd_cont st (with_traces (st_cont st) (strip_traces (c_traces (st_cont st))))) fid) with (get_frame st fid) in H.
    destruct (get_frame st fid) as [f|]; [|discriminate]. destruct (alookup n (f_binds f)); [|discriminate].
    injection H as <-. reflexivity.
  Qed.
  Hint Resolve fr_ret fr_fail fr_unm fr_fuel fr_assert fr_require fr_of_opt fr_env_read : frb.

  Ltac fr_step :=
    lazymatch goal with
    | |- fr (bind get_st _) => apply fr_get; [intros ?|intros ? ?; reflexivity]
    | |- fr (bind _ _) => apply fr_bind; [solve [auto with pureb] | |intros ?]
    | |- fr (match ?x with _ => _ end) => destruct x
    | |- fr (if ?b then _ else _) => destruct b
    | |- fr (let '(_, _) := ?x in _) => destruct x
    | |- fr _ => solve [auto with frb]
    end.
  Ltac solve_fr := repeat fr_step.

  Section WithEv.
    Variable ev : val -> M val.
    Definition both (a : val) : Prop := pure (ev a) /\ fr (ev a).
    Lemma both_pure args : Forall both args -> Forall (fun a => pure (ev a)) args.
    Proof. intros H. apply Forall_forall. intros a Ha. rewrite Forall_forall in H. apply (H a Ha). Qed.
    Lemma fr_eval_args args : Forall both args -> fr (eval_args ev args).
    Proof. unfold eval_args. apply fr_mapM. Qed.
    Lemma fr_last_or l : fr (last_or_index_error l). Proof. unfold last_or_index_error. solve_fr. Qed.
    Hint Resolve fr_eval_args fr_last_or : frb.
    Hint Resolve pure_eval_args pure_last_or pure_arg0 pure_contains_m pure_py_str pure_py_sum : pureb.

    (** a clean name is looked up alike with and without the virtual signals *)
    Lemma contains_strip st n : clean st n -> cont_contains (st_cont (strip st)) n = cont_contains (st_cont st) n.
    Proof.
      intros [_ Hc]. unfold cont_contains. unfold strip. cbn [upd_cont st_cont]. rewrite address_strip.
      destruct (address (st_cont st) n) as [t sig| |]; [|reflexivity|reflexivity].
      destruct Hc as [Hv _]. rewrite (trace_has_strip t sig Hv). reflexivity.
    Qed.
    Lemma value_strip st n scope : clean st n ->
      cont_signal_value (st_cont (strip st)) n scope =
      (fst (cont_signal_value (st_cont st) n scope), option_map strip_trace (snd (cont_signal_value (st_cont st) n scope))).
    Proof.
      intros [_ Hc]. unfold cont_signal_value. unfold strip. cbn [upd_cont st_cont]. rewrite address_strip.
      destruct (address (st_cont st) n) as [t sig| |]; [|reflexivity|reflexivity].
      destruct Hc as [Hv Hl]. cbn [with_traces c_traces fst snd option_map]. rewrite strip_length, (trace_value_strip _ t sig scope Hv Hl). reflexivity.
    Qed.
    Lemma clean_not_virtual st n scope : clean st n -> forall x t, cont_signal_value (st_cont st) n scope <> (SVirtual x, t).
    Proof.
      intros [_ Hc] x t H. unfold cont_signal_value in H. destruct (address (st_cont st) n) as [t0 sig| |]; try discriminate.
      destruct Hc as [Hv Hl]. destruct (smem_listing sig Hl) as (E1 & E2 & E3 & E4).
      injection H as H _. unfold trace_signal_value in H. cbv zeta in H. rewrite Hv, E1, E2, E3, E4 in H.
      repeat match type of H with
             | (if ?b then _ else _) = _ => destruct b
             | match ?o with _ => _ end = _ => destruct o
             end; discriminate.
    Qed.

    Lemma fr_eval_symbol n s : In n names -> fr (eval_symbol ev n s).
    Proof.
      intros Hin st a Hok H. destruct Hok as [Hw Hcl]. rewrite Forall_forall in Hcl. pose proof (Hcl n Hin) as Hc.
      destruct Hc as [Ha Hc0]. assert (Hc : clean st n) by (split; assumption).
      unfold eval_symbol, bind, get_st in *. change (st_aliases (strip st)) with (st_aliases st) in H. rewrite Ha in *.
      change (st_cur (strip st)) with (st_cur st) in H. change (st_scope (strip st)) with (st_scope st) in H.
      destruct s as [k|].
      - unfold strip in H at 1. rewrite hop_cont in H. destruct (hop st (st_cur st) k) as [fid|]; [|discriminate].
        apply (fr_env_read fid n st a (conj Hw (proj2 (Forall_forall _ _) Hcl)) H).
      - unfold contains_m, bind, get_st in *. rewrite (contains_strip st n Hc) in H.
        change (c_ntraces (st_cont (strip st))) with (c_ntraces (st_cont st)) in H.
        destruct (cont_contains (st_cont st) n) as [[|]|].
        + cbn [ret] in *. unfold signal_value_m, bind, get_st in *. rewrite (value_strip st n (st_scope st) Hc) in H.
          destruct (cont_signal_value (st_cont st) n (st_scope st)) as [r t] eqn:E. cbn [fst snd] in H.
          destruct r as [v|x|e|].
          * cbn [ret] in *. injection H as <-. reflexivity.
          * exfalso. apply (clean_not_virtual st n (st_scope st) Hc x t E).
          * destruct t; discriminate.
          * destruct t; discriminate.
        + cbn [ret] in *. apply (fr_env_read (st_cur st) n st a (conj Hw (proj2 (Forall_forall _ _) Hcl)) H).
        + destruct ((c_ntraces (st_cont st) =? 1) && negb (has_sep n)); discriminate.
    Qed.

    Lemma fr_py_str v : fr (py_str v). Proof. unfold py_str. solve_fr. Qed.
    Lemma fr_py_sum vs : fr (py_sum vs). Proof. unfold py_sum. solve_fr. Qed.
    Hint Resolve fr_py_str fr_py_sum : frb.
    Lemma fr_mapM_all {A B} (f : A -> M B) l : (forall a, pure (f a)) -> (forall a, fr (f a)) -> fr (mapM f l).
    Proof. intros H1 H2. apply fr_mapM. apply Forall_forall. intros a _. split; [apply H1|apply H2]. Qed.

    Section Args.
      Variable args : list val.
      Hypothesis Hargs : Forall both args.
      Lemma Hpure_args : Forall (fun a => pure (ev a)) args. Proof. apply both_pure, Hargs. Qed.
      Lemma pure_ea' : pure (eval_args ev args). Proof. apply pure_eval_args, Hpure_args. Qed.
      Lemma fr_ea : fr (eval_args ev args). Proof. apply fr_eval_args, Hargs. Qed.
      Hint Resolve pure_ea' fr_ea : pureb frb.

      Lemma fr_op_not : fr (op_not ev args). Proof. unfold op_not. solve_fr. Qed.
      Lemma fr_op_eq neg : fr (op_eq ev neg args). Proof. unfold op_eq. solve_fr. Qed.
      Lemma fr_op_cmp t : fr (op_cmp ev t args). Proof. unfold op_cmp. solve_fr. Qed.
      Lemma fr_op_add : fr (op_add ev args).
      Proof. unfold op_add. apply fr_bind; [apply pure_ea'|apply fr_ea|intros vs].
        destruct (existsb is_list_val vs); [apply fr_ret|]. destruct (existsb is_str_val vs); [|apply fr_py_sum].
        apply fr_bind; [apply pure_mapM_all; intros; apply pure_py_str|apply fr_mapM_all; intros; [apply pure_py_str|apply fr_py_str]|intros; apply fr_ret].
      Qed.
      Lemma fr_op_sub : fr (op_sub ev args). Proof. unfold op_sub. solve_fr. Qed.
      Lemma fr_op_mul : fr (op_mul ev args). Proof. unfold op_mul. solve_fr. Qed.
      Lemma fr_op_div : fr (op_div ev args). Proof. unfold op_div. solve_fr. Qed.
      Lemma fr_op_exp : fr (op_exp ev args). Proof. unfold op_exp. solve_fr. Qed.
      Lemma fr_op_mod : fr (op_mod ev args). Proof. unfold op_mod. solve_fr. Qed.
      Lemma fr_op_bitwise f : fr (op_bitwise ev f args). Proof. unfold op_bitwise. solve_fr. Qed.
      Lemma fr_op_slice : fr (op_slice ev args). Proof. unfold op_slice. solve_fr. Qed.
      Lemma fr_op_do : fr (op_do ev args).
      Proof.
        unfold op_do. pose proof pure_ea' as P. pose proof fr_ea as Q. destruct args as [|a r]; [apply fr_ret|].
        apply fr_bind; [exact P|exact Q|intros; apply fr_last_or].
      Qed.
    End Args.

    Lemma fr_and_loop args : Forall both args -> fr (and_loop ev args).
    Proof.
      induction 1 as [|a r [Pa Ea] Hr IH]; cbn [and_loop]; [apply fr_ret|].
      apply fr_bind; [exact Pa|exact Ea|intros v]. apply fr_get; [intros s0|intros s0 s1; reflexivity].
      destruct (truthy s0 v); [exact IH|apply fr_ret].
    Qed.
    Lemma fr_or_loop args : Forall both args -> fr (or_loop ev args).
    Proof.
      induction 1 as [|a r [Pa Ea] Hr IH]; cbn [or_loop]; [apply fr_ret|].
      apply fr_bind; [exact Pa|exact Ea|intros v]. apply fr_get; [intros s0|intros s0 s1; reflexivity].
      destruct (truthy s0 v); [apply fr_ret|exact IH].
    Qed.
    Lemma fr_op_and args : Forall both args -> fr (op_and ev args).
    Proof. intros H. unfold op_and. apply fr_bind; [apply pure_assert|apply fr_assert|intros _; apply fr_and_loop, H]. Qed.
    Lemma fr_op_or args : Forall both args -> fr (op_or ev args).
    Proof. intros H. unfold op_or. apply fr_bind; [apply pure_assert|apply fr_assert|intros _; apply fr_or_loop, H]. Qed.
    Lemma fr_op_if args : Forall both args -> fr (op_if ev args).
    Proof.
      intros H. unfold op_if. apply fr_bind; [apply pure_assert|apply fr_assert|intros _].
      destruct args as [|c [|t r]]; try apply fr_fail.
      inversion H as [|? ? [Pc Ec] H1]; subst. inversion H1 as [|? ? [Pt Et] Hr]; subst.
      apply fr_bind; [exact Pc|exact Ec|intros v]. apply fr_get; [intros s0|intros s0 s1; reflexivity].
      destruct (truthy s0 v); [exact Et|]. destruct r as [|e [|? ?]]; try apply fr_ret.
      inversion Hr as [|? ? [Pe Ee] _]; subst. exact Ee.
    Qed.

    Lemma fr_op_reval args : Forall both args -> fr (op_reval ev args).
    Proof.
      intros HF st a Hok H. destruct Hok as [Hw Hcl].
      destruct args as [|e [|o [|? ?]]]; try (unfold op_reval in H; cbn in H; discriminate).
      inversion HF as [|? ? [Pe Fe] HF1]; subst. inversion HF1 as [|? ? [Po Fo] _]; subst.
      destruct (valid_body e) eqn:Hv.
      2:{ unfold op_reval in H. cbn [List.length Nat.eqb assert] in H. unfold bind at 1 in H. cbn [ret] in H.
          fold (valid_body e) in H. rewrite Hv in H. discriminate. }
      pose proof (okst_strip st Hw) as Hoks.
      destruct (ev o (strip st)) as [ov s1| | |] eqn:Eo.
      2,3,4: (unfold op_reval in H; cbn [List.length Nat.eqb assert] in H; unfold bind at 1 in H; cbn [ret] in H;
              fold (valid_body e) in H; rewrite Hv in H; cbn [assert] in H; unfold bind at 1 in H; cbn [ret] in H;
              unfold bind at 1 in H; rewrite Eo in H; discriminate).
      pose proof (Po _ _ _ Hoks Eo) as ->.
      pose proof (Fo st ov (conj Hw Hcl) Eo) as Eo'.
      destruct (int_of ov) as [off|] eqn:Hi.
      2:{ unfold op_reval in H. cbn [List.length Nat.eqb assert] in H. unfold bind at 1 in H. cbn [ret] in H.
          fold (valid_body e) in H. rewrite Hv in H. cbn [assert] in H. unfold bind at 1 in H. cbn [ret] in H.
          unfold bind at 1 in H. rewrite Eo, Hi in H. discriminate. }
      destruct (all_in_range (c_traces (st_cont st)) off) eqn:Hr.
      - (* in range *)
        assert (Hr' : all_in_range (c_traces (st_cont (strip st))) off = true).
        { unfold strip. cbn [upd_cont st_cont with_traces c_traces]. rewrite all_in_range_strip. exact Hr. }
        destruct (reval_in_range ev e o st ov off st Hv Eo' Hi Hr) as (c & Hs & _ & E).
        destruct (reval_in_range ev e o (strip st) ov off (strip st) Hv Eo Hi Hr') as (c' & Hs' & _ & E').
        unfold shifted in Hs, Hs'.
        assert (Ec : c' = strip_cont c).
        { pose proof (cont_step_strip _ _ _ _ Hs) as X. change (st_cont (strip st)) with (strip_cont (st_cont st)) in Hs'.
          rewrite X in Hs'. injection Hs' as <-. reflexivity. }
        subst c'. rewrite E' in H. rewrite E.
        assert (Estrip : upd_cont (strip st) (strip_cont c) = strip (upd_cont st c)) by reflexivity.
        rewrite Estrip in H.
        assert (Hwc : cwf c) by (apply (cwf_cont_step _ _ _ _ _ Hs), cwf_cont_store, Hw).
        destruct (ev e (strip (upd_cont st c))) as [v st2| | |] eqn:Ee; try discriminate.
        pose proof (Pe _ _ _ (okst_strip (upd_cont st c) Hwc) Ee) as ->.
        assert (Hrs : cont_restore (st_cont (strip (upd_cont st c))) = Some (st_cont (strip st))).
        { change (st_cont (strip (upd_cont st c))) with (strip_cont c).
          apply (restore_after_step (strip_cont (st_cont st)) off (strip_cont c) []); [apply cwf_strip, Hw|apply cont_step_strip, Hs]. }
        rewrite Hrs in H. injection H as <-.
        assert (Fe' : ev e (upd_cont st c) = Ok v (upd_cont st c)).
        { apply Fe; [|exact Ee]. split; [exact Hwc|]. apply Forall_forall. intros n Hn. rewrite Forall_forall in Hcl.
          apply (clean_moved st off c [] n Hs), Hcl, Hn. }
        rewrite Fe'. cbn [upd_cont st_cont]. rewrite (restore_after_step (st_cont st) off c [] Hw Hs).
        destruct st; reflexivity.
      - (* out of range *)
        assert (Hr' : all_in_range (c_traces (st_cont (strip st))) off = false).
        { unfold strip. cbn [upd_cont st_cont with_traces c_traces]. rewrite all_in_range_strip. exact Hr. }
        rewrite (reval_out_of_range ev e o (strip st) ov off (strip st) Hv Eo Hi Hr') in H. injection H as <-.
        apply (reval_out_of_range ev e o st ov off st Hv Eo' Hi Hr).
    Qed.

  End WithEv.

  (** the names an expression mentions *)
  Fixpoint syms (e : val) : list string :=
    match e with
    | VSym n _ => [n]
    | VList _ l => flat_map syms l
    | _ => []
    end.

  (** the fragment: the read-only operators of ReadOnly.v and relative evaluation e@k *)
  Definition rov_op (o : op) : bool := ro_op o || match o with OReval => true | _ => false end.
  Fixpoint is_rov (e : val) : bool :=
    match e with
    | VInt _ | VBool _ | VStr _ | VFloat _ | VSym _ _ => true
    | VList _ (VOp o :: args) => rov_op o && forallb is_rov args
    | _ => false
    end.

  (** the whole fragment, real evaluator, any fuel *)
  Theorem ro_frame lf f : forall e, is_rov e = true -> incl (syms e) names -> both (eval lf f) e.
  Proof.
    induction f as [|f IH]; intros e Hro Hn; [split; [apply pure_fuel|apply fr_fuel]|].
    change (eval lf (S f) e) with (eval_body lf (fun e' => eval lf f e') (fun e' p => expand lf f e' p) e).
    destruct e as [| | | | | | |w l| | | | |]; try discriminate; try (split; [apply pure_ret|apply fr_ret]).
    - split; [apply pure_eval_symbol|apply fr_eval_symbol, Hn; left; reflexivity].
    - destruct l as [|h args]; [discriminate|]. destruct h as [| | | | | |o| | | | | |]; try discriminate.
      cbn [is_rov] in Hro. apply andb_prop in Hro as [Ho Ha].
      assert (HF : Forall (both (eval lf f)) args).
      { apply Forall_forall. intros a Hin. rewrite forallb_forall in Ha. apply IH; [apply Ha, Hin|].
        intros x Hx. apply Hn. cbn [syms flat_map]. apply in_flat_map. exists a. split; [exact Hin|exact Hx]. }
      pose proof (both_pure _ _ HF) as HP.
      cbn [eval_body]. split.
      + destruct o; try discriminate; unfold dispatch;
          first [ apply pure_op_not | apply pure_op_eq | apply pure_op_cmp | apply pure_op_and | apply pure_op_or
                | apply pure_op_if | apply pure_op_do | apply pure_op_add | apply pure_op_sub | apply pure_op_mul
                | apply pure_op_div | apply pure_op_exp | apply pure_op_mod | apply pure_op_bitwise | apply pure_op_slice
                | apply pure_op_reval ];
          exact HP.
      + destruct o; try discriminate; unfold dispatch;
          first [ apply fr_op_not | apply fr_op_eq | apply fr_op_cmp | apply fr_op_and | apply fr_op_or
                | apply fr_op_if | apply fr_op_do | apply fr_op_add | apply fr_op_sub | apply fr_op_mul
                | apply fr_op_div | apply fr_op_exp | apply fr_op_mod | apply fr_op_bitwise | apply fr_op_slice
                | apply fr_op_reval ];
          exact HF.
  Qed.

  Theorem ro_frame_args lf f body : forallb is_rov body = true -> incl (flat_map syms body) names ->
    fr (eval_args (eval lf f) body).
  Proof.
    intros Hro Hn. apply fr_eval_args. apply Forall_forall. intros a Hin. rewrite forallb_forall in Hro.
    apply ro_frame; [apply Hro, Hin|]. intros x Hx. apply Hn. apply in_flat_map. exists a. split; assumption.
  Qed.
End Names.

(** * in words *)
Theorem read_only_ignores_virtual_signals lf f e st a :
  is_rov e = true -> cwf (st_cont st) -> Forall (clean st) (syms e) ->
  eval lf f e (strip st) = Ok a (strip st) -> eval lf f e st = Ok a st.
Proof.
  intros Hro Hw Hc H. destruct (ro_frame (syms e) lf f e Hro (incl_refl _)) as [_ Hf].
  apply (Hf st a (conj Hw Hc) H).
Qed.

(** * C13: a virtual signal whose body is in the fragment and reads real signals *)
Lemma amem_aset_indep {V} k n (v v' : V) l : amem k (aset n v l) = amem k (aset n v' l).
Proof.
  unfold amem. induction l as [|[k0 x] l IH]; cbn [aset alookup].
  - destruct (String.eqb k n); reflexivity.
  - destruct (String.eqb n k0) eqn:E; cbn [alookup]; destruct (String.eqb k k0); try reflexivity. exact IH.
Qed.

Section Body.
  Variable lf : nat.
  Variable f : nat.
  Variable tid name : string.
  Variable st0 : state.
  Variable t0 : trace.
  Variable body : list val.
  Hypothesis Htid : tr_tid t0 = tid.
  Hypothesis Hone : c_ntraces (st_cont st0) = 1.
  Notation vst := (vstate tid name st0 t0 body).

  Lemma strip_vstate j c : strip (vst j c) = strip (vst j []).
  Proof. reflexivity. Qed.

  Lemma cwf_vstate j c : cwf (st_cont (vst j c)).
  Proof.
    apply cwf_parts. unfold vstate, set1, upd_cont, with_traces. cbn. repeat split.
    - constructor; [intros []|constructor].
    - intros k t [H|[]]. injection H as <- <-. exact Htid.
    - exact Hone.
  Qed.

  Lemma clean_vstate j c n : clean (vst 0 []) n -> clean (vst j c) n.
  Proof.
    unfold clean. intros [Ha Hc]. split; [exact Ha|].
    unfold vstate, set1, upd_cont, with_traces, address in *. cbn [st_cont c_ntraces c_traces] in *.
    destruct ((c_ntraces (st_cont st0) =? 1) && negb (has_sep n)).
    - cbn [tr_virt set_virt] in *. destruct Hc as [Hv Hl]. split; [|exact Hl].
      rewrite (amem_aset_indep n name (mkVsig body c) (mkVsig body [])). exact Hv.
    - destruct (ssplit_first "^"%char n) as [[x sig]|]; [|exact I]. cbn [alookup] in *.
      destruct (String.eqb x tid); [|exact I]. cbn [tr_virt set_virt] in *. destruct Hc as [Hv Hl]. split; [|exact Hl].
      rewrite (amem_aset_indep sig name (mkVsig body c) (mkVsig body [])). exact Hv.
  Qed.

  Hypothesis Hro : forallb is_rov body = true.
  Hypothesis Hclean : Forall (clean (vst 0 [])) (flat_map syms body).

  (** the body has the same value, and leaves the state alone, whatever the cache holds *)
  Lemma body_ignores_cache j c vals s' :
    eval_args (eval lf f) body (strip (vst j [])) = Ok vals s' ->
    eval_args (eval lf f) body (vst j c) = Ok vals (vst j c).
  Proof.
    intros H.
    assert (HB : Forall (both (flat_map syms body) (eval lf f)) body).
    { apply Forall_forall. intros a Hin. rewrite forallb_forall in Hro. apply ro_frame; [apply Hro, Hin|].
      intros x Hx. apply in_flat_map. exists a. split; assumption. }
    assert (HP : pure (eval_args (eval lf f) body)) by (apply pure_eval_args, (both_pure _ _ _ HB)).
    pose proof (HP _ _ _ (okst_strip (vst j []) (cwf_vstate j [])) H) as ->.
    apply (fr_eval_args (flat_map syms body) (eval lf f) body HB (vst j c) vals).
    - split; [apply cwf_vstate|]. apply Forall_forall. intros n Hn. rewrite Forall_forall in Hclean. apply clean_vstate, Hclean, Hn.
    - rewrite strip_vstate. exact H.
  Qed.

  Variable value_at : Z -> val.
  (** the body can be evaluated at every index of the trace as loaded (without the virtual signals) *)
  Hypothesis Hval : forall j, in_range t0 j ->
    exists vals s', eval_args (eval lf f) body (strip (vst j [])) = Ok vals s' /\ last_opt vals = Some (value_at j).

  Theorem reads_of_a_read_only_body js c : Forall (in_range t0) js -> sound t0 value_at c ->
    exists c2, reads (eval lf f) tid name st0 t0 body js c (map value_at js) c2 /\ sound t0 value_at c2.
  Proof.
    apply (reads_in_any_order (eval lf f) tid name st0 t0 body Htid value_at).
    intros j c0 Hj. destruct (Hval j Hj) as (vals & s' & He & Hl). exists vals. split; [|exact Hl].
    apply (body_ignores_cache j c0 vals s' He).
  Qed.
End Body.

(** the premises are met: v := (+ a 1) over the five-sample trace of ScanProofs, any fuel pair large enough *)
Example demo_clean : Forall (clean (vstate "t" "v" sig_state sig_trace v_body 0 [])) (flat_map syms v_body).
Proof. repeat constructor. Qed.
Example demo_any_order : forall js, Forall (in_range sig_trace) js ->
  exists c2, reads (eval 50 50) "t" "v" sig_state sig_trace v_body js [] (map v_value js) c2.
Proof.
  intros js Hjs.
  destruct (reads_of_a_read_only_body 50 50 "t" "v" sig_state sig_trace v_body eq_refl eq_refl eq_refl demo_clean) with
    (value_at := v_value) (js := js) (c := @nil (Z * val)) as (c2 & H & _).
  - intros j Hj. unfold in_range in Hj. cbn [tr_max sig_trace] in Hj.
    assert (E : j = 0 \/ j = 1 \/ j = 2 \/ j = 3 \/ j = 4) by lia.
    destruct E as [->|[->|[->|[->| ->]]]]; eexists _, _; (split; [vm_compute; reflexivity|reflexivity]).
  - exact Hjs.
  - intros ts v [].
  - exists c2. exact H.
Qed.

(** a body with @: rising edge r := (&& a (! a@-1)) *)
Definition rise_body : list val := [WL [VOp OAnd; VSym "a" None; WL [VOp ONot; WL [VOp OReval; VSym "a" None; VInt (-1)]]]].
Definition rise_value (j : Z) : val := VBool (match j with 1 => true | 4 => true | _ => false end).
Example rise_clean : Forall (clean (vstate "t" "r" sig_state sig_trace rise_body 0 [])) (flat_map syms rise_body).
Proof. repeat constructor. Qed.
Example rise_any_order : forall js, Forall (in_range sig_trace) js ->
  exists c2, reads (eval 50 50) "t" "r" sig_state sig_trace rise_body js [] (map rise_value js) c2.
Proof.
  intros js Hjs.
  destruct (reads_of_a_read_only_body 50 50 "t" "r" sig_state sig_trace rise_body eq_refl eq_refl eq_refl rise_clean) with
    (value_at := rise_value) (js := js) (c := @nil (Z * val)) as (c2 & H & _).
  - intros j Hj. unfold in_range in Hj. cbn [tr_max sig_trace] in Hj.
    assert (E : j = 0 \/ j = 1 \/ j = 2 \/ j = 3 \/ j = 4) by lia.
    destruct E as [->|[->|[->|[->| ->]]]]; eexists _, _; (split; [vm_compute; reflexivity|reflexivity]).
  - exact Hjs.
  - intros ts v [].
  - exists c2. exact H.
Qed.
