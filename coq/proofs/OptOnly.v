(** OptOnly.v — the optimisation pass rewrites nothing but the listed shapes (C08): a node whose children are already
    optimised is returned unchanged unless it is an if with a literal condition, a do with one operand, a + whose
    operands are all numeric literals or all string literals, or a * whose operands are all numeric literals; && and
    || are folded only when all operands are literals. *)
From WalModel Require Import Eval.
Local Open Scope Z_scope.

Theorem other_operators_untouched w o l' :
  o <> OIf -> o <> ODo -> o <> OAdd -> o <> OMul -> optimize_node w o l' = Some (VList true l').
Proof. intros H1 H2 H3 H4. destruct o; try reflexivity; congruence. Qed.

Theorem if_with_nonliteral_condition_untouched w h c rest :
  is_lit c = false -> optimize_node w OIf (h :: c :: rest) = Some (VList true (h :: c :: rest)).
Proof. intros H. cbn [optimize_node]. rewrite H. reflexivity. Qed.

Theorem do_with_several_operands_untouched w l' :
  List.length l' <> 2%nat -> optimize_node w ODo l' = Some (VList true l').
Proof. intros H. destruct l' as [|a [|b [|c r]]]; try reflexivity. cbn in H. congruence. Qed.

Theorem plus_with_mixed_operands_untouched w l' :
  forallb is_num_lit (tl l') = false -> forallb is_str_lit (tl l') = false ->
  optimize_node w OAdd l' = Some (VList true l').
Proof. intros H1 H2. cbn [optimize_node]. rewrite H1, H2. reflexivity. Qed.

Theorem times_with_a_nonliteral_untouched w l' :
  forallb is_num_lit (tl l') = false -> optimize_node w OMul l' = Some (VList true l').
Proof. intros H. cbn [optimize_node]. rewrite H. reflexivity. Qed.

Theorem and_or_with_a_nonliteral_untouched w args :
  forallb is_lit args = false ->
  optimize (VList w (VOp OAnd :: args)) = VList w (VOp OAnd :: args) /\
  optimize (VList w (VOp OOr :: args)) = VList w (VOp OOr :: args).
Proof. intros H. unfold optimize. cbn [optimize_opt]. rewrite H. cbn [andb]. split; destruct w; reflexivity. Qed.

(** the pass at a node: the children are optimised, then one step *)
Theorem optimize_at_a_node o args :
  o <> OQuote -> o <> OQuasiquote -> o <> OAnd -> o <> OOr ->
  optimize_opt (VList true (VOp o :: args)) =
  match map_opt optimize_opt args with
  | Some args' => optimize_node true o (VOp o :: args')
  | None => None
  end.
Proof. intros H1 H2 H3 H4. destruct o; try reflexivity; congruence. Qed.

(** plain Python lists (no source position) are returned as they are *)
Theorem plain_lists_untouched o args :
  o <> OAnd -> o <> OOr -> optimize (VList false (VOp o :: args)) = VList false (VOp o :: args).
Proof. intros H1 H2. unfold optimize. destruct o; try reflexivity; try congruence. Qed.
