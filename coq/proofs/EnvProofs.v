(** EnvProofs.v — the environment model: lexical lookup (C06) and agreement of static
    resolution with dynamic lookup (C07). *)
From WalModel Require Import Eval.
From WalModel.proofs Require Import VcdProofs Balanced ScopeProofs.
Local Open Scope Z_scope.

Definition binds (st : state) (fid : nat) (name : string) : bool :=
  match get_frame st fid with Some f => amem name (f_binds f) | None => false end.

(** * lookup finds the innermost binding on the static chain *)
Theorem lookup_innermost : forall fuel st id name fid,
  find_frame fuel st id name = Some fid ->
  exists k, hop st id k = Some fid /\ binds st fid name = true /\ (k < fuel)%nat /\
            forall j fj, (j < k)%nat -> hop st id j = Some fj -> binds st fj name = false.
Proof.
  induction fuel as [|n IH]; intros st id name fid H; [discriminate|]. cbn [find_frame] in H.
  destruct (get_frame st id) as [f|] eqn:Ef; [|discriminate].
  destruct (amem name (f_binds f)) eqn:Em.
  - injection H as <-. exists O. repeat split; [unfold binds; rewrite Ef; exact Em|lia|intros j fj Hj; lia].
  - destruct (f_parent f) as [p|] eqn:Ep; [|discriminate].
    destruct (IH _ _ _ _ H) as (k & Hk & Hb & Hlt & Hnear). exists (S k). repeat split.
    + cbn [hop]. rewrite Ef, Ep. exact Hk.
    + exact Hb.
    + lia.
    + intros j fj Hj Hh. destruct j.
      * cbn [hop] in Hh. injection Hh as <-. unfold binds. rewrite Ef. exact Em.
      * cbn [hop] in Hh. rewrite Ef, Ep in Hh. apply (Hnear j fj); [lia|exact Hh].
Qed.

(** skipping k frames that do not bind the name does not change what lookup finds *)
Theorem lookup_skips_nonbinding : forall k st id name fid fuel,
  hop st id k = Some fid ->
  (forall j fj, (j < k)%nat -> hop st id j = Some fj -> binds st fj name = false) ->
  find_frame (k + fuel) st id name = find_frame fuel st fid name.
Proof.
  induction k as [|k IH]; intros st id name fid fuel Hh Hnear.
  - cbn [hop] in Hh. injection Hh as <-. reflexivity.
  - cbn [hop] in Hh. destruct (get_frame st id) as [f|] eqn:Ef; [|discriminate].
    destruct (f_parent f) as [p|] eqn:Ep; [|discriminate].
    cbn [Nat.add find_frame]. rewrite Ef.
    assert (H0 : binds st id name = false) by (apply (Hnear O id); [lia|reflexivity]).
    unfold binds in H0. rewrite Ef in H0. rewrite H0, Ep.
    apply IH; [exact Hh|]. intros j fj Hj Hhj. apply (Hnear (S j) fj); [lia|]. cbn [hop]. rewrite Ef, Ep. exact Hhj.
Qed.

Lemma find_frame_here fuel st fid name : binds st fid name = true -> find_frame (S fuel) st fid name = Some fid.
Proof. unfold binds. intros H. cbn [find_frame]. destruct (get_frame st fid); [|discriminate]. rewrite H. reflexivity. Qed.

(** * static distance = dynamic lookup *)
(** a symbol resolved to distance k reads the same binding as dynamic lookup whenever frame k on
    the chain binds the name and no nearer frame does *)
Theorem resolved_read_agrees ev name k st fid :
  hop st (st_cur st) k = Some fid -> binds st fid name = true ->
  (forall j fj, (j < k)%nat -> hop st (st_cur st) j = Some fj -> binds st fj name = false) ->
  (k <= List.length (st_frames st))%nat ->
  alookup name (st_aliases st) = None -> cont_contains (st_cont st) name = Some false ->
  eval_symbol ev name (Some k) st = eval_symbol ev name None st.
Proof.
  intros Hh Hb Hnear Hk Ha Hc. unfold eval_symbol, contains_m, bind, get_st. rewrite Ha, Hh, Hc.
  unfold ret. cbv beta iota.
  unfold env_read, lookup_frame.
  rewrite (find_frame_here _ st fid name Hb).
  replace (S (List.length (st_frames st))) with (k + S (List.length (st_frames st) - k))%nat by lia.
  rewrite (lookup_skips_nonbinding k st (st_cur st) name fid _ Hh Hnear).
  rewrite (find_frame_here _ st fid name Hb). reflexivity.
Qed.

(** the same for assignment: the frame a resolved set stores into is the frame dynamic lookup finds *)
Theorem resolved_write_agrees name k st fid :
  hop st (st_cur st) k = Some fid -> binds st fid name = true ->
  (forall j fj, (j < k)%nat -> hop st (st_cur st) j = Some fj -> binds st fj name = false) ->
  (k <= List.length (st_frames st))%nat ->
  lookup_frame st (st_cur st) name = Some fid.
Proof.
  intros Hh Hb Hnear Hk. unfold lookup_frame.
  replace (S (List.length (st_frames st))) with (k + S (List.length (st_frames st) - k))%nat by lia.
  rewrite (lookup_skips_nonbinding k st (st_cur st) name fid _ Hh Hnear).
  apply find_frame_here. exact Hb.
Qed.

(** * what the resolver computes *)
Theorem scope_steps_spec : forall scopes id k0 k,
  scope_steps scopes id k0 = Some k ->
  exists j, k = (k0 + j)%nat /\
            (exists sc, nth_error scopes j = Some sc /\ smem id sc = true) /\
            forall i sc, (i < j)%nat -> nth_error scopes i = Some sc -> smem id sc = false.
Proof.
  induction scopes as [|s r IH]; intros id k0 k H; [discriminate|]. cbn [scope_steps] in H.
  destruct (smem id s) eqn:E.
  - injection H as <-. exists O. split; [lia|]. split; [exists s; split; [reflexivity|exact E]|]. intros i sc Hi; lia.
  - destruct (IH _ _ _ H) as (j & Hk & Hex & Hnear). exists (S j). split; [lia|]. split; [exact Hex|].
    intros i sc Hi Hn. destruct i; [cbn in Hn; injection Hn as <-; exact E|]. apply (Hnear i sc); [lia|exact Hn].
Qed.

(** the static scope stack describes the dynamic chain: frame j above the current one binds
    exactly the names recorded for scope j *)
Definition chain_matches (st : state) (scopes : list (list string)) : Prop :=
  forall j sc, nth_error scopes j = Some sc ->
    exists fj, hop st (st_cur st) j = Some fj /\ forall x, binds st fj x = smem x sc.

(** T-res, core: under that invariant a resolved symbol reads what dynamic lookup reads *)
Theorem resolution_agrees_with_dynamic_lookup ev scopes st name k :
  chain_matches st scopes ->
  scope_steps scopes name O = Some k ->
  (k <= List.length (st_frames st))%nat ->
  alookup name (st_aliases st) = None -> cont_contains (st_cont st) name = Some false ->
  eval_symbol ev name (Some k) st = eval_symbol ev name None st /\
  exists fid, hop st (st_cur st) k = Some fid /\ lookup_frame st (st_cur st) name = Some fid.
Proof.
  intros Hm Hs Hk Ha Hc.
  destruct (scope_steps_spec _ _ _ _ Hs) as (j & Hj & (sc & Hn & Hin) & Hnear). cbn [Nat.add] in Hj. subst j.
  destruct (Hm _ _ Hn) as (fid & Hh & Hb).
  assert (Hbk : binds st fid name = true) by (rewrite Hb; exact Hin).
  assert (Hnb : forall j fj, (j < k)%nat -> hop st (st_cur st) j = Some fj -> binds st fj name = false).
  { intros j fj Hlt Hhj.
    assert (Hsome : exists scj, nth_error scopes j = Some scj).
    { destruct (nth_error scopes j) eqn:E; [eauto|]. apply nth_error_None in E.
      assert (k < List.length scopes)%nat by (apply nth_error_Some; congruence). lia. }
    destruct Hsome as [scj Hscj]. destruct (Hm _ _ Hscj) as (fj' & Hh' & Hb'). rewrite Hhj in Hh'. injection Hh' as <-.
    rewrite Hb'. apply (Hnear j scj Hlt Hscj). }
  split.
  - apply (resolved_read_agrees ev name k st fid); assumption.
  - exists fid. split; [exact Hh|]. apply (resolved_write_agrees name k st fid); assumption.
Qed.

(** * closures: the body sees the definition site, not the caller *)
Section WithEv.
  Variable ev : val -> M val.
  Hypothesis Hev : forall e, good (ev e).

  (** calling a closure with fixed parameters allocates a fresh frame whose parent is the frame the
      closure captured (never the caller's), runs the body there, and gives the caller's frame back *)
  Theorem call_is_lexical cenv ps body nm args st r st' :
    eval_closure ev (VClos cenv (VList true ps) body nm) args st = Ok r st' ->
    exists s_pre s_post,
      let fid := List.length (st_frames st) in
      nth_error (parents s_pre) fid = Some (Some cenv) /\
      st_cur s_pre = st_cur st /\
      ev body (upd_cur s_pre fid) = Ok r s_post /\
      st' = upd_cur s_post (st_cur st) /\
      List.length ps = List.length args.
  Proof.
    unfold eval_closure. intros H.
    apply bind_ok_inv in H as (st0 & s0 & E & H). injection E as <- <-.
    apply bind_ok_inv in H as (fid & s1 & E1 & H).
    assert (Hfid : fid = List.length (st_frames st) /\ parents s1 = parents st +++ [Some cenv] /\ st_cur s1 = st_cur st).
    { unfold new_frame in E1. injection E1 as <- <-. repeat split. unfold parents. cbn [upd_frames st_frames]. apply map_app. }
    destruct Hfid as (-> & Hp1 & Hc1).
    apply bind_ok_inv in H as (u & s2 & E2 & H).
    apply bind_ok_inv in E2 as (u0 & s2' & Ea & E2).
    assert (Hlen : List.length ps = List.length args /\ s2' = s1).
    { unfold assert in Ea. destruct (Nat.eqb (List.length ps) (List.length args)) eqn:El; [|discriminate].
      injection Ea as _ <-. split; [apply Nat.eqb_eq; exact El|reflexivity]. }
    destruct Hlen as [Hlen ->].
    pose proof (good_bind_params ev Hev _ _ _ _ _ _ E2) as (C2 & S2 & e2 & F2).
    apply bind_ok_inv in H as (u1 & s3 & E3 & H). unfold modify in E3. injection E3 as _ <-.
    apply bind_ok_inv in H as (r0 & s4 & E4 & H).
    apply bind_ok_inv in H as (u2 & s5 & E5 & H). unfold modify in E5. injection E5 as _ <-. injection H as <- <-.
    exists s2, s4. cbn zeta. repeat split; try assumption; try congruence.
    rewrite F2, Hp1. rewrite <- app_assoc. unfold parents at 1. rewrite nth_error_app2; rewrite map_length; [|lia].
    rewrite Nat.sub_diag. reflexivity.
  Qed.
End WithEv.

(** * errors rather than values *)
Theorem unbound_read_is_error id name st :
  lookup_frame st id name = None -> env_read id name st = Er EEval st.
Proof. unfold env_read. intros ->. reflexivity. Qed.

Theorem set_undefined_is_error ev kn e v st st1 :
  ev e st = Ok v st1 -> lookup_frame st1 (st_cur st1) kn = None ->
  op_set ev [WL [VSym kn None; e]] st = Er EEval st1.
Proof.
  intros He Hl. unfold op_set, bind, WL. cbn [List.length Nat.eqb negb assert ret]. rewrite He.
  unfold get_st. rewrite Hl. reflexivity.
Qed.

Theorem redefine_is_error id name v st f :
  get_frame st id = Some f -> amem name (f_binds f) = true -> env_define id name v st = Er EEval st.
Proof. intros Hf Hm. unfold env_define. rewrite Hf, Hm. reflexivity. Qed.

Theorem arity_mismatch_is_error ev cenv ps body nm args st :
  List.length ps <> List.length args ->
  exists st', eval_closure ev (VClos cenv (VList true ps) body nm) args st = Er EEval st'.
Proof.
  intros Hne. unfold eval_closure, bind, get_st, new_frame.
  assert (E : Nat.eqb (List.length ps) (List.length args) = false) by (apply Nat.eqb_neq; exact Hne).
  rewrite E. cbn [assert fail]. eexists. reflexivity.
Qed.

(** let: bindings are established one after the other in the new frame (an initialiser sees the
    earlier ones), and the frame is left when the let completes (T-bal) *)
Theorem let_is_sequential ev k1 e1 k2 e2 body st v1 s1 :
  let fid := List.length (st_frames st) in
  let st0 := upd_cur (upd_frames st (st_frames st +++ [mkFrame [] (Some (st_cur st))])) fid in
  ev e1 st0 = Ok v1 s1 ->
  op_let ev [WL [WL [VSym k1 None; e1]; WL [VSym k2 None; e2]]; body] st =
  (env_define fid k1 v1 ;;; v2 <- ev e2 ;; env_define fid k2 v2 ;;;
   vs <- eval_args ev [body] ;; r <- last_or_index_error vs ;;
   modify (fun s => upd_cur s (st_cur st)) ;;; ret r) s1.
Proof.
  cbn zeta. intros H1. unfold op_let, bind, get_st, new_frame, modify, WL. cbn [arg0 ret List.length Nat.eqb assert tl].
  rewrite H1.
  destruct (env_define (List.length (st_frames st)) k1 v1 s1) as [u s2| | |]; try reflexivity.
  destruct (ev e2 s2) as [v2 s3| | |]; try reflexivity.
  destruct (env_define (List.length (st_frames st)) k2 v2 s3) as [u' s4| | |]; reflexivity.
Qed.
