(** CsvProofs.v — time-stamp conversion of the CSV reader is exact (C18). *)
From WalModel Require Import Csv.
From WalModel.proofs Require Import ArithProofs.
Local Open Scope Z_scope.

Lemma append_nil_r' (s : string) : s ++ "" = s.
Proof. induction s as [|c s IH]; cbn [append]; [reflexivity|rewrite IH; reflexivity]. Qed.

Definition all_digits (s : string) : bool := sall is_digit s.

(** value of a decimal digit string (0 for the empty string) *)
Definition dv (s : string) : Z :=
  match digits_val_acc 10 s 0 with Some v => v | None => 0 end.

Lemma is_digit_val c : is_digit c = true -> exists d, digit_val c = Some d /\ 0 <= d < 10.
Proof.
  unfold is_digit, digit_val. intros H. rewrite H. eexists. split; [reflexivity|].
  apply andb_prop in H as [H1 H2]. lia.
Qed.

Lemma digits_val_acc_lin (s : string) : all_digits s = true -> forall acc,
  digits_val_acc 10 s acc = Some (acc * 10 ^ slen s + dv s) /\ 0 <= dv s < 10 ^ slen s.
Proof.
  unfold dv. induction s as [|c s IH]; intros H acc.
  - cbn [digits_val_acc slen]. split; [f_equal; lia|lia].
  - cbn [all_digits sall] in H. apply andb_prop in H as [Hc Hs].
    destruct (is_digit_val c Hc) as [d [Hd Hr]].
    cbn [digits_val_acc slen]. rewrite Hd.
    assert (Hlt : (d <? 10) = true) by lia. rewrite Hlt.
    pose proof (slen_nonneg s) as Hn.
    destruct (IH Hs (acc * 10 + d)) as [E1 B1]. destruct (IH Hs (0 * 10 + d)) as [E2 _].
    rewrite E1, E2. replace (1 + slen s) with (Z.succ (slen s)) by lia. rewrite Z.pow_succ_r by lia.
    cbn iota. set (P := 10 ^ slen s) in *. assert (0 < P) by (apply Z.pow_pos_nonneg; lia).
    split; [f_equal; ring|nia].
Qed.

Lemma span_digits_app (p r : string) :
  all_digits p = true ->
  match r with EmptyString => True | String c _ => is_digit c = false end ->
  span_digits (p ++ r) = (p, r).
Proof.
  intros Hp Hr. induction p as [|c p IH]; cbn [append].
  - destruct r as [|c r]; [reflexivity|]. cbn [span_digits]. rewrite Hr. reflexivity.
  - cbn [all_digits sall] in Hp. apply andb_prop in Hp as [Hc Hp'].
    cbn [span_digits]. rewrite Hc, (IH Hp'). reflexivity.
Qed.

Lemma all_digits_zeros n : all_digits (zeros n) = true.
Proof. induction n; cbn; auto. Qed.
Lemma dv_zeros n : dv (zeros n) = 0.
Proof.
  unfold dv. induction n as [|n IH]; [reflexivity|]. cbn [zeros digits_val_acc].
  change (digit_val "0"%char) with (Some 0). cbn [Z.ltb Z.compare]. exact IH.
Qed.
Lemma all_digits_app a b : all_digits (a ++ b) = all_digits a && all_digits b.
Proof. apply sall_app. Qed.

Lemma dv_app a b : all_digits a = true -> all_digits b = true ->
  dv (a ++ b) = dv a * 10 ^ slen b + dv b.
Proof.
  intros Ha Hb. unfold dv at 1. rewrite digits_val_acc_app.
  destruct (digits_val_acc_lin a Ha 0) as [E _]. rewrite E.
  destruct (digits_val_acc_lin b Hb (0 * 10 ^ slen a + dv a)) as [E2 _]. rewrite E2. lia.
Qed.

(** seconds with up to nine fractional digits -> integer nanoseconds, exactly *)
Theorem csv_time_fraction (pre post : string) :
  all_digits pre = true -> pre <> EmptyString -> all_digits post = true -> slen post <= 9 ->
  csv_time (pre ++ "." ++ post) = Some (dv pre * 10 ^ 9 + dv post * 10 ^ (9 - slen post)).
Proof.
  intros Hpre Hne Hpost Hlen. unfold csv_time.
  rewrite (span_digits_app pre ("." ++ post) Hpre) by reflexivity.
  destruct pre as [|c pre]; [congruence|]. cbn [append]. change (Ascii.eqb "."%char "."%char) with true. cbn iota.
  pose proof (span_digits_app post EmptyString Hpost I) as Hsp. rewrite append_nil_r' in Hsp. rewrite Hsp.
  set (post' := match post with EmptyString => "0" | _ => post end).
  assert (Hp' : all_digits post' = true) by (destruct post; [reflexivity|exact Hpost]).
  assert (Hv : dv post' * 10 ^ (9 - slen post') = dv post * 10 ^ (9 - slen post)).
  { destruct post; [reflexivity|reflexivity]. }
  assert (Hl : 0 <= 9 - slen post').
  { destruct post as [|x post]; [cbn; lia|subst post'; lia]. }
  unfold digits_val.
  assert (Hall : all_digits (String c pre ++ post' ++ zeros (Z.to_nat (9 - slen post'))) = true).
  { rewrite !all_digits_app, Hpre, Hp', all_digits_zeros. reflexivity. }
  change (String c (pre ++ post' ++ zeros (Z.to_nat (9 - slen post'))))
    with (String c pre ++ post' ++ zeros (Z.to_nat (9 - slen post'))).
  destruct (digits_val_acc_lin _ Hall 0) as [E _].
  destruct (String c pre ++ post' ++ zeros (Z.to_nat (9 - slen post'))) eqn:Es; [discriminate|].
  rewrite <- Es in *. rewrite E. f_equal.
  rewrite dv_app by (try exact Hpre; rewrite all_digits_app, Hp', all_digits_zeros; reflexivity).
  rewrite dv_app by (try exact Hp'; apply all_digits_zeros).
  rewrite dv_zeros, !slen_app, slen_zeros, Z2Nat.id by lia.
  rewrite <- Hv. pose proof (slen_nonneg post').
  replace (slen post' + (9 - slen post')) with 9 by lia. ring.
Qed.

Theorem csv_time_integer (pre : string) :
  all_digits pre = true -> pre <> EmptyString ->
  csv_time pre = Some (dv pre * 10 ^ 9).
Proof.
  intros Hpre Hne. unfold csv_time.
  pose proof (span_digits_app pre EmptyString Hpre I) as Hsp. rewrite append_nil_r' in Hsp. rewrite Hsp.
  destruct pre as [|c pre]; [congruence|]. cbn [span_digits].
  unfold digits_val.
  assert (Hall : all_digits (String c pre ++ "0" ++ zeros (Z.to_nat (9 - slen "0"))) = true).
  { rewrite all_digits_app, Hpre. reflexivity. }
  change (String c pre ++ "0" ++ zeros (Z.to_nat (9 - slen "0"))) with (String c (pre ++ "000000000")) in *.
  destruct (digits_val_acc_lin _ Hall 0) as [E _]. rewrite E. f_equal.
  change (String c (pre ++ "000000000")) with (String c pre ++ "000000000").
  rewrite dv_app by (try exact Hpre; reflexivity). change (dv "000000000") with 0.
  change (slen "000000000") with 9. lia.
Qed.

(** names: spaces become underscores, [n] becomes <n>, [h:l] is dropped *)
Example csv_name_examples :
  norm_csv_name "Channel 0" = "Channel_0" /\ norm_csv_name "D 7[3]" = "D_7<3>" /\
  norm_csv_name "bus [7:0]" = "bus_" /\ norm_csv_name "x(2)[3:0]" = "x<2>".
Proof. vm_compute. repeat split; reflexivity. Qed.

(** * the table walk: every cell lands in the column of its header, rows in order *)
From WalModel.proofs Require Import VcdProofs ListProofs.

(** the cells of one row that belong to column [h]: positions whose header is [h], the time column skipped *)
Fixpoint picked (cells header : list string) (x p : nat) (h : string) : list string :=
  match cells, header with
  | c :: cr, h' :: hr =>
      if Nat.eqb x p then picked cr hr (S x) p h
      else (if String.eqb h h' then [c] else []) +++ picked cr hr (S x) p h
  | _, _ => []
  end.

Lemma row_cells_spec p : forall cells header x data,
  List.length cells = List.length header ->
  (forall k h, nth_error header k = Some h -> (x + k)%nat <> p -> amem h data = true) ->
  exists data', csv_row_cells cells header x p data = Some data' /\ map fst data' = map fst data /\
    forall h, alookup h data' = option_map (fun col => col +++ picked cells header x p h) (alookup h data).
Proof.
  induction cells as [|c cr IH]; intros header x data Hlen Hkeys.
  - exists data. split; [reflexivity|]. split; [reflexivity|]. intros h. cbn [picked].
    destruct (alookup h data); cbn [option_map]; [rewrite app_nil_r|]; reflexivity.
  - destruct header as [|h' hr]; [discriminate|]. cbn [csv_row_cells picked]. injection Hlen as Hlen.
    destruct (Nat.eqb x p) eqn:Ex.
    + apply (IH hr (S x) data Hlen). intros k h Hk Hne. apply (Hkeys (S k) h Hk). lia.
    + apply Nat.eqb_neq in Ex.
      assert (Hm : amem h' data = true) by (apply (Hkeys O h' eq_refl); lia).
      unfold amem in Hm. destruct (alookup h' data) as [col|] eqn:El; [|discriminate].
      destruct (IH hr (S x) (aset h' (col +++ [c]) data) Hlen) as (data' & Hr & Hk' & Hl').
      { intros k h Hk Hne. unfold amem. destruct (String.eqb_spec h h') as [->|Hd].
        - rewrite alookup_aset_same. reflexivity.
        - rewrite alookup_aset_other by (apply String.eqb_neq; exact Hd).
          assert (X : amem h data = true) by (apply (Hkeys (S k) h Hk); lia). exact X. }
      exists data'. split; [exact Hr|]. split.
      * rewrite Hk'. apply keys_aset_old. unfold amem. rewrite El. reflexivity.
      * intros h. rewrite Hl'. destruct (String.eqb_spec h h') as [->|Hd].
        -- rewrite alookup_aset_same, El. cbn [option_map]. rewrite <- app_assoc. reflexivity.
        -- rewrite alookup_aset_other by (apply String.eqb_neq; exact Hd). reflexivity.
Qed.

Theorem csv_rows_spec p header : forall rows data ts,
  (forall row, In row rows -> List.length row = List.length header /\ exists cell t, nth_error row p = Some cell /\ csv_time cell = Some t) ->
  (forall k h, nth_error header k = Some h -> k <> p -> amem h data = true) ->
  exists data' times, csv_rows rows header p data ts = Some (data', rev ts +++ times) /\
    map (fun row => match nth_error row p with Some cell => csv_time cell | None => None end) rows = map Some times /\
    map fst data' = map fst data /\
    forall h, alookup h data' =
              option_map (fun col => col +++ flat_map (fun row => picked row header O p h) rows) (alookup h data).
Proof.
  induction rows as [|row rows IH]; intros data ts Hrows Hkeys.
  - exists data, []. cbn [csv_rows map flat_map]. rewrite app_nil_r. repeat split; try reflexivity.
    intros h. destruct (alookup h data); cbn [option_map]; [rewrite app_nil_r|]; reflexivity.
  - destruct (Hrows row (or_introl eq_refl)) as (Hlen & cell & t & Hcell & Ht).
    cbn [csv_rows]. rewrite Hcell, Ht.
    destruct (row_cells_spec p row header O data Hlen) as (d1 & Hr & Hk1 & Hl1).
    { intros k h Hk Hne. apply (Hkeys k h Hk). lia. }
    rewrite Hr.
    destruct (IH d1 (t :: ts)) as (d2 & times & Hrs & Htimes & Hk2 & Hl2).
    { intros r Hin. apply Hrows. right. exact Hin. }
    { intros k h Hk Hne. unfold amem. rewrite Hl1. specialize (Hkeys k h Hk Hne). unfold amem in Hkeys.
      destruct (alookup h data); [reflexivity|discriminate]. }
    exists d2, (t :: times). split; [|split; [|split]].
    + rewrite Hrs. cbn [rev]. rewrite <- app_assoc. reflexivity.
    + cbn [map]. rewrite Hcell, Ht, Htimes. reflexivity.
    + congruence.
    + intros h. rewrite Hl2, Hl1. cbn [flat_map]. destruct (alookup h data); cbn [option_map]; [rewrite <- app_assoc|]; reflexivity.
Qed.

(** with distinct column names, column k receives exactly the k-th cell of every row *)
Lemma picked_unique p : forall cells header x k h,
  List.length cells = List.length header ->
  nth_error header k = Some h -> (x + k)%nat <> p ->
  (forall j h', nth_error header j = Some h' -> (x + j)%nat <> p -> j <> k -> h' <> h) ->
  picked cells header x p h = match nth_error cells k with Some c => [c] | None => [] end.
Proof.
  induction cells as [|c cr IH]; intros header x k h Hlen Hk Hne Huniq.
  - destruct header; [|discriminate]. destruct k; discriminate.
  - destruct header as [|h' hr]; [discriminate|]. injection Hlen as Hlen. cbn [picked].
    destruct k as [|k].
    + injection Hk as ->. assert (Ex : Nat.eqb x p = false) by (apply Nat.eqb_neq; lia). rewrite Ex, String.eqb_refl.
      cbn [nth_error app]. f_equal.
      assert (G : forall cs hs y, List.length cs = List.length hs -> (forall j h', nth_error hs j = Some h' -> (y + j)%nat <> p -> h' <> h) -> picked cs hs y p h = []).
      { induction cs as [|c2 cs IHc]; intros hs y Hl Hu; [reflexivity|]. destruct hs as [|h2 hs]; [discriminate|].
        injection Hl as Hl. cbn [picked]. destruct (Nat.eqb y p) eqn:Ey.
        - apply IHc; [exact Hl|]. intros j h'' Hj Hn. apply (Hu (S j) h'' Hj). lia.
        - apply Nat.eqb_neq in Ey. assert (h2 <> h) by (apply (Hu O h2 eq_refl); lia).
          destruct (String.eqb_spec h h2); [congruence|]. cbn [app]. apply IHc; [exact Hl|].
          intros j h'' Hj Hn. apply (Hu (S j) h'' Hj). lia. }
      apply G; [exact Hlen|]. intros j h2 Hj Hn. apply (Huniq (S j) h2 Hj); lia.
    + cbn [nth_error] in Hk |- *. destruct (Nat.eqb x p) eqn:Ex.
      * apply (IH hr (S x) k h Hlen Hk); [lia|]. intros j h2 Hj Hn Hjk. apply (Huniq (S j) h2 Hj); lia.
      * apply Nat.eqb_neq in Ex. assert (h' <> h) by (apply (Huniq O h' eq_refl); lia).
        destruct (String.eqb_spec h h'); [congruence|]. cbn [app].
        apply (IH hr (S x) k h Hlen Hk); [lia|]. intros j h'' Hj Hn Hjk. apply (Huniq (S j) h'' Hj); lia.
Qed.

Definition empty_cols (raw : list string) : list (string * list string) :=
  fold_left (fun acc nm => aset nm [] acc) raw [].

Lemma empty_cols_lookup raw : forall acc h,
  (forall k col, alookup k acc = Some col -> col = []) ->
  (In h raw \/ amem h acc = true) ->
  alookup h (fold_left (fun acc nm => aset nm ([] : list string) acc) raw acc) = Some [].
Proof.
  induction raw as [|nm raw IH]; intros acc h Hall Hin; cbn [fold_left].
  - destruct Hin as [[]|Hm]. unfold amem in Hm. destruct (alookup h acc) as [col|] eqn:E; [|discriminate].
    rewrite (Hall _ _ E). reflexivity.
  - apply IH.
    + intros k col. destruct (String.eqb_spec k nm) as [->|Hd].
      * rewrite alookup_aset_same. intros E. injection E as <-. reflexivity.
      * rewrite alookup_aset_other by (apply String.eqb_neq; exact Hd). apply Hall.
    + destruct Hin as [[->|Hin]|Hm].
      * right. unfold amem. rewrite alookup_aset_same. reflexivity.
      * left. exact Hin.
      * right. unfold amem in *. destruct (String.eqb_spec h nm) as [->|Hd].
        -- rewrite alookup_aset_same. reflexivity.
        -- rewrite alookup_aset_other by (apply String.eqb_neq; exact Hd). exact Hm.
Qed.

Lemma picked_rows p header rows k h :
  (forall row, In row rows -> List.length row = List.length header) ->
  nth_error header k = Some h -> k <> p ->
  (forall j h', nth_error header j = Some h' -> j <> p -> j <> k -> h' <> h) ->
  flat_map (fun row => picked row header O p h) rows =
  flat_map (fun row => match nth_error row k with Some c => [c] | None => [] end) rows.
Proof.
  intros Hlen Hk Hne Huniq. induction rows as [|row rows IH]; [reflexivity|]. cbn [flat_map].
  rewrite (picked_unique p row header O k h (Hlen row (or_introl eq_refl)) Hk); [|lia|].
  - f_equal. apply IH. intros r Hin. apply Hlen. right. exact Hin.
  - intros j h' Hj Hn Hjk. apply (Huniq j h' Hj); [lia|exact Hjk].
Qed.

(** the table walk as a whole: timestamps are the converted time cells in row order, and the column of every
    uniquely named non-time header holds that header's cell of every row, in row order *)
Theorem csv_table_walk p header raw rows :
  (forall row, In row rows -> List.length row = List.length header /\
                              exists cell t, nth_error row p = Some cell /\ csv_time cell = Some t) ->
  (forall k h, nth_error header k = Some h -> k <> p -> In h raw) ->
  exists data times,
    csv_rows rows header p (empty_cols raw) [] = Some (data, times) /\
    map (fun row => match nth_error row p with Some cell => csv_time cell | None => None end) rows = map Some times /\
    forall k h, nth_error header k = Some h -> k <> p ->
      (forall j h', nth_error header j = Some h' -> j <> p -> j <> k -> h' <> h) ->
      alookup h data = Some (flat_map (fun row => match nth_error row k with Some c => [c] | None => [] end) rows).
Proof.
  intros Hrows Hraw.
  assert (Hkeys : forall k h, nth_error header k = Some h -> k <> p -> amem h (empty_cols raw) = true).
  { intros k h Hk Hne. unfold amem, empty_cols. rewrite (empty_cols_lookup raw [] h); [reflexivity|intros ? ? E; discriminate E|].
    left. apply (Hraw k h Hk Hne). }
  destruct (csv_rows_spec p header rows (empty_cols raw) [] Hrows Hkeys) as (data & times & Hr & Ht & _ & Hl).
  exists data, times. cbn [rev app] in Hr. split; [exact Hr|]. split; [exact Ht|].
  intros k h Hk Hne Huniq. rewrite Hl. unfold empty_cols.
  rewrite (empty_cols_lookup raw [] h); [|intros ? ? E; discriminate E|left; apply (Hraw k h Hk Hne)].
  cbn [option_map app]. f_equal.
  apply (picked_rows p header rows k h); [intros row Hin; apply (Hrows row Hin)|exact Hk|exact Hne|exact Huniq].
Qed.

(** * the header walk: every non-time column is renamed in place, signals = normalised names in order *)
Definition nontime (v : string) : bool := negb (String.eqb v time_header).
Definition ren (h : string) : string := if String.eqb h time_header then h else norm_csv_name h.

(** each non-time header differs from the already normalised names to its left (then [header.index] finds
    the column itself) *)
Fixpoint ok_from (pre rest : list string) : Prop :=
  match rest with
  | [] => True
  | h :: r => (h <> time_header -> ~ In h (map ren pre)) /\ ok_from (pre +++ [h]) r
  end.

Lemma index_of_app_notin x l1 l2 : ~ In x l1 -> index_of x (l1 +++ x :: l2) = Some (List.length l1).
Proof.
  induction l1 as [|y l1 IH]; intros Hn; cbn [app index_of List.length].
  - rewrite String.eqb_refl. reflexivity.
  - destruct (String.eqb_spec x y) as [->|_]; [exfalso; apply Hn; left; reflexivity|].
    rewrite IH; [reflexivity|]. intros H. apply Hn. right. exact H.
Qed.

Lemma replace_nth_app {A} (l1 : list A) x y l2 : replace_nth (List.length l1) y (l1 +++ x :: l2) = l1 +++ y :: l2.
Proof. induction l1 as [|z l1 IH]; cbn [app List.length replace_nth]; [reflexivity|rewrite IH; reflexivity]. Qed.

Lemma csv_names_walk : forall rest pre raw, ok_from pre rest ->
  csv_names (filter nontime rest) (map ren pre +++ rest) raw =
  Some (map ren (pre +++ rest), rev raw +++ map norm_csv_name (filter nontime rest)).
Proof.
  induction rest as [|h rest IH]; intros pre raw Hok.
  - cbn [filter csv_names map]. rewrite !app_nil_r. reflexivity.
  - destruct Hok as [Hh Hok]. cbn [filter].
    replace (map ren pre +++ h :: rest) with (map ren pre +++ [h] +++ rest) by reflexivity.
    destruct (String.eqb_spec h time_header) as [E|Hne].
    + assert (N : nontime h = false) by (unfold nontime; rewrite E, String.eqb_refl; reflexivity). rewrite N.
      subst h. specialize (IH (pre +++ [time_header]) raw Hok). rewrite map_app in IH. cbn [map] in IH.
      assert (R : ren time_header = time_header) by (unfold ren; rewrite String.eqb_refl; reflexivity).
      rewrite R in IH. rewrite <- app_assoc in IH. rewrite IH. rewrite <- app_assoc. reflexivity.
    + assert (N : nontime h = true) by (unfold nontime; destruct (String.eqb_spec h time_header); [contradiction|reflexivity]).
      rewrite N. cbn [csv_names]. cbn [app]. rewrite (index_of_app_notin h (map ren pre) rest (Hh Hne)).
      rewrite replace_nth_app.
      specialize (IH (pre +++ [h]) (norm_csv_name h :: raw) Hok). rewrite map_app in IH. cbn [map] in IH.
      unfold ren at 2 in IH. destruct (String.eqb_spec h time_header) as [|_]; [contradiction|].
      rewrite <- app_assoc in IH. cbn [app] in IH. rewrite IH. cbn [rev map]. rewrite <- !app_assoc. reflexivity.
Qed.

Theorem csv_header_walk header : ok_from [] header ->
  csv_names (filter nontime header) header [] =
  Some (map ren header, map norm_csv_name (filter nontime header)).
Proof. intros H. apply (csv_names_walk header [] [] H). Qed.
