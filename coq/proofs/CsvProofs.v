(** CsvProofs.v — time-stamp conversion of the CSV reader is exact (C18). *)
From WalModel Require Import Csv.
From WalModel.proofs Require Import ArithProofs.
Local Open Scope Z_scope.

Lemma append_nil_r' (s : string) : s ++ "" = s.
Proof. induction s as [|c s IH]; cbn [append]; [reflexivity|rewrite IH; reflexivity]. Qed.

Definition all_digits (s : string) : bool := sall is_digit s.

(** value of a decimal digit string (0 for the empty string) *)
Definition dv (s : string) : Z :=
  match digits_val_acc 10 s 0 with Some v => v | None => 0 end.

Lemma is_digit_val c : is_digit c = true -> exists d, digit_val c = Some d /\ 0 <= d < 10.
Proof.
  unfold is_digit, digit_val. intros H. rewrite H. eexists. split; [reflexivity|].
  apply andb_prop in H as [H1 H2]. lia.
Qed.

Lemma digits_val_acc_lin (s : string) : all_digits s = true -> forall acc,
  digits_val_acc 10 s acc = Some (acc * 10 ^ slen s + dv s) /\ 0 <= dv s < 10 ^ slen s.
Proof.
  unfold dv. induction s as [|c s IH]; intros H acc.
  - cbn [digits_val_acc slen]. split; [f_equal; lia|lia].
  - cbn [all_digits sall] in H. apply andb_prop in H as [Hc Hs].
    destruct (is_digit_val c Hc) as [d [Hd Hr]].
    cbn [digits_val_acc slen]. rewrite Hd.
    assert (Hlt : (d <? 10) = true) by lia. rewrite Hlt.
    pose proof (slen_nonneg s) as Hn.
    destruct (IH Hs (acc * 10 + d)) as [E1 B1]. destruct (IH Hs (0 * 10 + d)) as [E2 _].
    rewrite E1, E2. replace (1 + slen s) with (Z.succ (slen s)) by lia. rewrite Z.pow_succ_r by lia.
    cbn iota. set (P := 10 ^ slen s) in *. assert (0 < P) by (apply Z.pow_pos_nonneg; lia).
    split; [f_equal; ring|nia].
Qed.

Lemma span_digits_app (p r : string) :
  all_digits p = true ->
  match r with EmptyString => True | String c _ => is_digit c = false end ->
  span_digits (p ++ r) = (p, r).
Proof.
  intros Hp Hr. induction p as [|c p IH]; cbn [append].
  - destruct r as [|c r]; [reflexivity|]. cbn [span_digits]. rewrite Hr. reflexivity.
  - cbn [all_digits sall] in Hp. apply andb_prop in Hp as [Hc Hp'].
    cbn [span_digits]. rewrite Hc, (IH Hp'). reflexivity.
Qed.

Lemma all_digits_zeros n : all_digits (zeros n) = true.
Proof. induction n; cbn; auto. Qed.
Lemma dv_zeros n : dv (zeros n) = 0.
Proof.
  unfold dv. induction n as [|n IH]; [reflexivity|]. cbn [zeros digits_val_acc].
  change (digit_val "0"%char) with (Some 0). cbn [Z.ltb Z.compare]. exact IH.
Qed.
Lemma all_digits_app a b : all_digits (a ++ b) = all_digits a && all_digits b.
Proof. apply sall_app. Qed.

Lemma dv_app a b : all_digits a = true -> all_digits b = true ->
  dv (a ++ b) = dv a * 10 ^ slen b + dv b.
Proof.
  intros Ha Hb. unfold dv at 1. rewrite digits_val_acc_app.
  destruct (digits_val_acc_lin a Ha 0) as [E _]. rewrite E.
  destruct (digits_val_acc_lin b Hb (0 * 10 ^ slen a + dv a)) as [E2 _]. rewrite E2. lia.
Qed.

(** seconds with up to nine fractional digits -> integer nanoseconds, exactly *)
Theorem csv_time_fraction (pre post : string) :
  all_digits pre = true -> pre <> EmptyString -> all_digits post = true -> slen post <= 9 ->
  csv_time (pre ++ "." ++ post) = Some (dv pre * 10 ^ 9 + dv post * 10 ^ (9 - slen post)).
Proof.
  intros Hpre Hne Hpost Hlen. unfold csv_time.
  rewrite (span_digits_app pre ("." ++ post) Hpre) by reflexivity.
  destruct pre as [|c pre]; [congruence|]. cbn [append]. change (Ascii.eqb "."%char "."%char) with true. cbn iota.
  pose proof (span_digits_app post EmptyString Hpost I) as Hsp. rewrite append_nil_r' in Hsp. rewrite Hsp.
  set (post' := match post with EmptyString => "0" | _ => post end).
  assert (Hp' : all_digits post' = true) by (destruct post; [reflexivity|exact Hpost]).
  assert (Hv : dv post' * 10 ^ (9 - slen post') = dv post * 10 ^ (9 - slen post)).
  { destruct post; [reflexivity|reflexivity]. }
  assert (Hl : 0 <= 9 - slen post').
  { destruct post as [|x post]; [cbn; lia|subst post'; lia]. }
  unfold digits_val.
  assert (Hall : all_digits (String c pre ++ post' ++ zeros (Z.to_nat (9 - slen post'))) = true).
  { rewrite !all_digits_app, Hpre, Hp', all_digits_zeros. reflexivity. }
  change (String c (pre ++ post' ++ zeros (Z.to_nat (9 - slen post'))))
    with (String c pre ++ post' ++ zeros (Z.to_nat (9 - slen post'))).
  destruct (digits_val_acc_lin _ Hall 0) as [E _].
  destruct (String c pre ++ post' ++ zeros (Z.to_nat (9 - slen post'))) eqn:Es; [discriminate|].
  rewrite <- Es in *. rewrite E. f_equal.
  rewrite dv_app by (try exact Hpre; rewrite all_digits_app, Hp', all_digits_zeros; reflexivity).
  rewrite dv_app by (try exact Hp'; apply all_digits_zeros).
  rewrite dv_zeros, !slen_app, slen_zeros, Z2Nat.id by lia.
  rewrite <- Hv. pose proof (slen_nonneg post').
  replace (slen post' + (9 - slen post')) with 9 by lia. ring.
Qed.

Theorem csv_time_integer (pre : string) :
  all_digits pre = true -> pre <> EmptyString ->
  csv_time pre = Some (dv pre * 10 ^ 9).
Proof.
  intros Hpre Hne. unfold csv_time.
  pose proof (span_digits_app pre EmptyString Hpre I) as Hsp. rewrite append_nil_r' in Hsp. rewrite Hsp.
  destruct pre as [|c pre]; [congruence|]. cbn [span_digits].
  unfold digits_val.
  assert (Hall : all_digits (String c pre ++ "0" ++ zeros (Z.to_nat (9 - slen "0"))) = true).
  { rewrite all_digits_app, Hpre. reflexivity. }
  change (String c pre ++ "0" ++ zeros (Z.to_nat (9 - slen "0"))) with (String c (pre ++ "000000000")) in *.
  destruct (digits_val_acc_lin _ Hall 0) as [E _]. rewrite E. f_equal.
  change (String c (pre ++ "000000000")) with (String c pre ++ "000000000").
  rewrite dv_app by (try exact Hpre; reflexivity). change (dv "000000000") with 0.
  change (slen "000000000") with 9. lia.
Qed.

(** names: spaces become underscores, [n] becomes <n>, [h:l] is dropped *)
Example csv_name_examples :
  norm_csv_name "Channel 0" = "Channel_0" /\ norm_csv_name "D 7[3]" = "D_7<3>" /\
  norm_csv_name "bus [7:0]" = "bus_" /\ norm_csv_name "x(2)[3:0]" = "x<2>".
Proof. vm_compute. repeat split; reflexivity. Qed.
