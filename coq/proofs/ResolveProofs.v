(** ResolveProofs.v — resolve is idempotent: a second run over an already resolved form, from
    the same scopes, returns the same form and the same scopes (C16). *)
From WalModel Require Import Passes.
Local Open Scope Z_scope.

Ltac inv_res H :=
  repeat match type of H with
         | match ?x with _ => _ end = RsOk _ => let E := fresh "E" in destruct x eqn:E; try discriminate
         | (if ?x then _ else _) = RsOk _ => let E := fresh "E" in destruct x eqn:E; try discriminate
         end.

Definition is_op (v : val) : bool := match v with VOp _ => true | _ => false end.

(** resolving never turns a non-operator into an operator, and leaves operators alone *)
Lemma resolve_vars_kind f : forall sc e e' sc', resolve_vars f sc e = RsOk (e', sc') ->
  (is_op e = true -> e' = e) /\ (is_op e = false -> is_op e' = false).
Proof.
  destruct f as [|f]; intros sc e e' sc' H; [discriminate|].
  destruct e; cbn [resolve_vars] in H; try (injection H as <- <-; split; [reflexivity|intros X; exact X]).
  - inv_res H; injection H as <- <-; split; try discriminate; reflexivity.
  - split; [discriminate|intros _]. destruct w; [|injection H as <- <-; reflexivity].
    destruct l as [|h rest]; [injection H as <- <-; reflexivity|].
    destruct h; try (inv_res H; injection H as <- <-; reflexivity).
Qed.

Section ListIdem.
  Variable rv : list (list string) -> val -> rres (val * list (list string)).
  Hypothesis Hrv : forall sc x x' sc', rv sc x = RsOk (x', sc') -> rv sc x' = RsOk (x', sc').
  Lemma resolve_list_idem : forall l sc l' sc',
    resolve_list rv sc l = RsOk (l', sc') -> resolve_list rv sc l' = RsOk (l', sc').
  Proof.
    induction l as [|x r IH]; cbn [resolve_list]; intros sc l' sc' H.
    - injection H as <- <-. reflexivity.
    - destruct (rv sc x) as [[x' sc1]|] eqn:Ex; [|discriminate].
      destruct (resolve_list rv sc1 r) as [[r' sc2]|] eqn:Er; [|discriminate].
      injection H as <- <-. cbn [resolve_list]. rewrite (Hrv _ _ _ _ Ex), (IH _ _ _ Er). reflexivity.
  Qed.
End ListIdem.

Lemma default_branch f sc h rest e' sc' :
  (forall sc x x' sc', resolve_vars f sc x = RsOk (x', sc') -> resolve_vars f sc x' = RsOk (x', sc')) ->
  match resolve_list (resolve_vars f) sc (h :: rest) with
  | RsErr er => RsErr er
  | RsOk (l', sc1) => RsOk (WL l', sc1)
  end = RsOk (e', sc') ->
  exists h' rest', e' = WL (h' :: rest') /\
    resolve_list (resolve_vars f) sc (h' :: rest') = RsOk (h' :: rest', sc') /\
    ((is_op h = true /\ h' = h) \/ (is_op h = false /\ is_op h' = false)).
Proof.
  intros IH H. destruct (resolve_list (resolve_vars f) sc (h :: rest)) as [[l' sc1]|] eqn:E; [|discriminate].
  injection H as <- <-. pose proof (resolve_list_idem _ IH _ _ _ _ E) as Hid.
  cbn [resolve_list] in E. destruct (resolve_vars f sc h) as [[h' sc2]|] eqn:Eh; [|discriminate].
  destruct (resolve_list (resolve_vars f) sc2 rest) as [[r' sc3]|]; [|discriminate]. injection E as <- <-.
  exists h', r'. split; [reflexivity|]. split; [exact Hid|].
  destruct (resolve_vars_kind _ _ _ _ _ Eh) as [K1 K2]. destruct (is_op h); [left|right]; auto.
Qed.

Definition case_go (f : nat) :=
  fix go (sc : list (list string)) (cs : list val) {struct cs} : rres (list val * list (list string)) :=
    match cs with
    | [] => RsOk ([], sc)
    | c :: r =>
        match c with
        | VList true (k :: body) =>
            match resolve_list (resolve_vars f) sc body with
            | RsErr er => RsErr er
            | RsOk (body', sc2) =>
                match go sc2 r with
                | RsErr er => RsErr er
                | RsOk (r', sc3) => RsOk (WL (k :: body') :: r', sc3)
                end
            end
        | _ =>
            match go sc r with
            | RsErr er => RsErr er
            | RsOk (r', sc3) => RsOk (c :: r', sc3)
            end
        end
    end.

Lemma case_unfold f sc kf clauses :
  resolve_vars (S f) sc (VList true (VOp OCase :: kf :: clauses)) =
  match resolve_vars f sc kf with
  | RsErr er => RsErr er
  | RsOk (kf', sc1) =>
      match case_go f sc1 clauses with
      | RsErr er => RsErr er
      | RsOk (cs', sc2) => RsOk (WL (VOp OCase :: kf' :: cs'), sc2)
      end
  end.
Proof. reflexivity. Qed.

Lemma case_go_idem f :
  (forall sc x x' sc', resolve_vars f sc x = RsOk (x', sc') -> resolve_vars f sc x' = RsOk (x', sc')) ->
  forall cs sc cs' sc', case_go f sc cs = RsOk (cs', sc') -> case_go f sc cs' = RsOk (cs', sc').
Proof.
  intros IH. induction cs as [|c r IHr]; intros sc cs' sc' H.
  - injection H as <- <-. reflexivity.
  - cbn [case_go] in H.
    destruct c as [| | | | | | |w l| | | | |];
      try (destruct (case_go f sc r) as [[r' sc3]|] eqn:Er; [|discriminate]; injection H as <- <-;
           cbn [case_go]; rewrite (IHr _ _ _ Er); reflexivity).
    destruct w; [destruct l as [|k body]|];
      try (destruct (case_go f sc r) as [[r' sc3]|] eqn:Er; [|discriminate]; injection H as <- <-;
           cbn [case_go]; rewrite (IHr _ _ _ Er); reflexivity).
    destruct (resolve_list (resolve_vars f) sc body) as [[body' sc2]|] eqn:Eb; [|discriminate].
    destruct (case_go f sc2 r) as [[r' sc3]|] eqn:Er; [|discriminate]. injection H as <- <-.
    unfold WL. cbn [case_go]. rewrite (resolve_list_idem _ IH _ _ _ _ Eb), (IHr _ _ _ Er). reflexivity.
Qed.

Ltac by_default IH H :=
  apply (default_branch _ _ _ _ _ _ IH) in H;
  let h' := fresh "h'" in let r' := fresh "r'" in let Hres := fresh "Hres" in let K := fresh "K" in
  destruct H as (h' & r' & -> & Hres & [[K ->]|[K K2]]);
  [try discriminate K; unfold WL; cbn [resolve_vars]; rewrite Hres; reflexivity
  |try discriminate K; destruct h'; try discriminate K2; unfold WL; cbn [resolve_vars]; rewrite Hres; reflexivity].

Theorem resolve_vars_idem f : forall sc e e' sc',
  resolve_vars f sc e = RsOk (e', sc') -> resolve_vars f sc e' = RsOk (e', sc').
Proof.
  induction f as [|f IH]; intros sc e e' sc' H; [discriminate|].
  destruct e; cbn [resolve_vars] in H; try (injection H as <- <-; reflexivity).
  - (* symbol *)
    destruct (scope_steps sc n 0) eqn:E; injection H as <- <-; cbn [resolve_vars]; rewrite E; reflexivity.
  - destruct w; [|injection H as <- <-; reflexivity].
    destruct l as [|h rest]; [injection H as <- <-; reflexivity|].
    destruct h as [| | | | | |o| | | | | |]; try (by_default IH H).
    destruct o; try (by_default IH H).
    all: try (injection H as <- <-; reflexivity).
    + (* define *)
      inv_res H. injection H as <- <-. unfold WL. cbn [resolve_vars]. rewrite E1, E3, (IH _ _ _ _ E4). reflexivity.
    + (* let *)
      inv_res H. injection H as <- <-. unfold WL. cbn [resolve_vars].
      match goal with X : map_opt _ _ = Some _ |- _ => rewrite X end.
      match goal with X : resolve_list _ _ _ = RsOk _ |- _ => rewrite (resolve_list_idem _ IH _ _ _ _ X) end. reflexivity.
    + (* case *)
      assert (H' : resolve_vars (S f) sc (VList true (VOp OCase :: rest)) = RsOk (e', sc')) by exact H. clear H.
      destruct rest as [|kf clauses]; [injection H' as <- <-; reflexivity|].
      rewrite case_unfold in H'. destruct (resolve_vars f sc kf) as [[kf' sc1]|] eqn:Ek; [|discriminate].
      destruct (case_go f sc1 clauses) as [[cs' sc2]|] eqn:Ec; [|discriminate]. injection H' as <- <-.
      unfold WL. rewrite case_unfold, (IH _ _ _ _ Ek), (case_go_idem f IH _ _ _ _ Ec). reflexivity.
    + (* defmacro *)
      destruct rest as [|id r]; [discriminate|]. destruct (sym_name id) eqn:En; [|discriminate].
      injection H as <- <-. cbn [resolve_vars]. rewrite En. reflexivity.
    + (* fn *)
      destruct rest as [|params body]; [discriminate|].
      match type of H with match ?X with _ => _ end = _ => destruct X as [names|] eqn:En; [|discriminate] end.
      destruct (resolve_list (resolve_vars f) (names :: sc) body) as [[body' sc1]|] eqn:Eb; [|discriminate].
      injection H as <- <-. unfold WL. cbn [resolve_vars]. rewrite En, (resolve_list_idem _ IH _ _ _ _ Eb). reflexivity.
Qed.

(** resolving keeps the nesting depth, so the second run gets the same fuel *)
Theorem resolve_idempotent start e e' : resolve start e = RsOk e' -> val_depth e' = val_depth e -> resolve start e' = RsOk e'.
Proof.
  unfold resolve. intros H Hd. rewrite Hd.
  destruct (resolve_vars (S (val_depth e)) [start] e) as [[v sc]|] eqn:E; [|discriminate]. injection H as ->.
  rewrite (resolve_vars_idem _ _ _ _ _ E). reflexivity.
Qed.

(** * resolution only annotates: erasing the distances from the resolved form gives the original form with its
      distances erased — the resolved program IS the program, with hints.  (define keeps exactly its first two
      operands, as in the code; [binary_defines] says no define has more.) *)
Fixpoint erase (e : val) : val :=
  match e with
  | VSym n _ => VSym n None
  | VList w l => VList w (map erase l)
  | VUnq x => VUnq (erase x)
  | VUnqS x => VUnqS (erase x)
  | _ => e
  end.

Fixpoint binary_defines (e : val) : bool :=
  match e with
  | VList _ l =>
      match l with
      | VOp ODefine :: rest => Nat.leb (List.length rest) 2
      | _ => true
      end && forallb binary_defines l
  | _ => true
  end.

Section ListErase.
  Variable rv : list (list string) -> val -> rres (val * list (list string)).
  Lemma resolve_list_erase : forall l sc l' sc',
    (forall x, In x l -> binary_defines x = true -> forall sc0 x' sc1, rv sc0 x = RsOk (x', sc1) -> erase x' = erase x) ->
    forallb binary_defines l = true ->
    resolve_list rv sc l = RsOk (l', sc') -> map erase l' = map erase l.
  Proof.
    induction l as [|x r IH]; cbn [resolve_list]; intros sc l' sc' Hrv Hb H.
    - injection H as <- <-. reflexivity.
    - cbn [forallb] in Hb. apply andb_prop in Hb as [Hx Hr].
      destruct (rv sc x) as [[x' sc1]|] eqn:Ex; [|discriminate].
      destruct (resolve_list rv sc1 r) as [[r' sc2]|] eqn:Er; [|discriminate].
      injection H as <- <-. cbn [map]. rewrite (Hrv x (or_introl eq_refl) Hx _ _ _ Ex).
      rewrite (IH _ _ _ (fun y Hy => Hrv y (or_intror Hy)) Hr Er). reflexivity.
  Qed.
End ListErase.

Lemma case_go_erase f :
  (forall sc x x' sc', binary_defines x = true -> resolve_vars f sc x = RsOk (x', sc') -> erase x' = erase x) ->
  forall cs sc cs' sc', forallb binary_defines cs = true -> case_go f sc cs = RsOk (cs', sc') -> map erase cs' = map erase cs.
Proof.
  intros IH. induction cs as [|c r IHr]; intros sc cs' sc' Hb H.
  - injection H as <- <-. reflexivity.
  - cbn [forallb] in Hb. apply andb_prop in Hb as [Hc Hr]. cbn [case_go] in H.
    destruct c as [| | | | | | |w l| | | | |];
      try (destruct (case_go f sc r) as [[r' sc3]|] eqn:Er; [|discriminate]; injection H as <- <-;
           cbn [map]; rewrite (IHr _ _ _ Hr Er); reflexivity).
    destruct w; [destruct l as [|k body]|];
      try (destruct (case_go f sc r) as [[r' sc3]|] eqn:Er; [|discriminate]; injection H as <- <-;
           cbn [map]; rewrite (IHr _ _ _ Hr Er); reflexivity).
    destruct (resolve_list (resolve_vars f) sc body) as [[body' sc2]|] eqn:Eb; [|discriminate].
    destruct (case_go f sc2 r) as [[r' sc3]|] eqn:Er; [|discriminate]. injection H as <- <-.
    cbn [binary_defines] in Hc. apply andb_prop in Hc as [_ Hc]. cbn [forallb] in Hc. apply andb_prop in Hc as [_ Hbody].
    cbn [map]. rewrite (IHr _ _ _ Hr Er). unfold WL. cbn [erase map]. do 3 f_equal.
    apply (resolve_list_erase (resolve_vars f) body sc body' sc2); [|exact Hbody|exact Eb].
    intros x _ Hx sc0 x' sc1 Ex. apply (IH _ _ _ _ Hx Ex).
Qed.

Ltac dflt H Hdefault :=
  match type of H with
  | match resolve_list ?a ?b ?c with _ => _ end = _ =>
      let l' := fresh "l'" in let sc1 := fresh "sc1" in let E := fresh "E" in
      destruct (resolve_list a b c) as [[l' sc1]|] eqn:E; [|discriminate];
      injection H as <- <-; apply (Hdefault _ _ eq_refl)
  end.

Theorem resolve_vars_erase f : forall sc e e' sc',
  binary_defines e = true -> resolve_vars f sc e = RsOk (e', sc') -> erase e' = erase e.
Proof.
  induction f as [|f IH]; intros sc e e' sc' Hb H; [discriminate|].
  destruct e; cbn [resolve_vars] in H; try (injection H as <- <-; reflexivity).
  - destruct (scope_steps sc n 0); injection H as <- <-; reflexivity.
  - destruct w; [|injection H as <- <-; reflexivity].
    destruct l as [|h rest]; [injection H as <- <-; reflexivity|].
    cbn [binary_defines] in Hb. apply andb_prop in Hb as [Hdef Hch].
    assert (Hdefault : forall l' sc1, resolve_list (resolve_vars f) sc (h :: rest) = RsOk (l', sc1) ->
                                      erase (WL l') = erase (VList true (h :: rest))).
    { intros l' sc1 E. unfold WL. cbn [erase]. f_equal.
      apply (resolve_list_erase (resolve_vars f) (h :: rest) sc l' sc1); [|exact Hch|exact E].
      intros x _ Hx sc0 x' sc2 Ex. apply (IH _ _ _ _ Hx Ex). }
    assert (Htail : forall body body' sc0 sc1, forallb binary_defines body = true ->
              resolve_list (resolve_vars f) sc0 body = RsOk (body', sc1) -> map erase body' = map erase body).
    { intros body body' sc0 sc1 Hbd E. apply (resolve_list_erase (resolve_vars f) body sc0 body' sc1); [|exact Hbd|exact E].
      intros x _ Hx sc2 x' sc3 Ex. apply (IH _ _ _ _ Hx Ex). }
    cbn [forallb] in Hch. apply andb_prop in Hch as [Hh Hrest].
    destruct h as [| | | | | |o| | | | | |];
      [dflt H Hdefault|dflt H Hdefault|dflt H Hdefault|dflt H Hdefault|dflt H Hdefault|dflt H Hdefault| |
       dflt H Hdefault|dflt H Hdefault|dflt H Hdefault|dflt H Hdefault|dflt H Hdefault|dflt H Hdefault].
    destruct o; try (dflt H Hdefault).
    all: try (injection H as <- <-; reflexivity).
    + (* define *)
      destruct rest as [|id [|body [|extra more]]]; try discriminate.
      * inv_res H.
      * inv_res H. injection H as <- <-. unfold WL. cbn [erase map]. do 3 f_equal.
        cbn [forallb] in Hrest. apply andb_prop in Hrest as [_ Hrest]. apply andb_prop in Hrest as [Hbody _].
        match goal with X : resolve_vars f _ body = RsOk _ |- _ => rewrite (IH _ _ _ _ Hbody X) end. reflexivity.
    + (* let *)
      inv_res H. injection H as <- <-. unfold WL. cbn [erase map]. do 3 f_equal.
      cbn [forallb] in Hrest. apply andb_prop in Hrest as [_ Hbody].
      match goal with X : resolve_list _ _ _ = RsOk _ |- _ => apply (Htail _ _ _ _ Hbody X) end.
    + (* case *)
      assert (H' : resolve_vars (S f) sc (VList true (VOp OCase :: rest)) = RsOk (e', sc')) by exact H. clear H.
      destruct rest as [|kf clauses]; [injection H' as <- <-; reflexivity|].
      rewrite case_unfold in H'. destruct (resolve_vars f sc kf) as [[kf' sc1]|] eqn:Ek; [|discriminate].
      destruct (case_go f sc1 clauses) as [[cs' sc2]|] eqn:Ec; [|discriminate]. injection H' as <- <-.
      cbn [forallb] in Hrest. apply andb_prop in Hrest as [Hkf Hcl].
      unfold WL. cbn [erase map]. rewrite (IH _ _ _ _ Hkf Ek). do 3 f_equal.
      apply (case_go_erase f (fun sc0 x x' sc3 Hx Ex => IH sc0 x x' sc3 Hx Ex) clauses sc1 cs' sc2 Hcl Ec).
    + (* defmacro *)
      destruct rest as [|id r]; [discriminate|]. destruct (sym_name id); [|discriminate]. injection H as <- <-. reflexivity.
    + (* fn *)
      destruct rest as [|params body]; [discriminate|].
      match type of H with match ?X with _ => _ end = _ => destruct X as [names|] eqn:En; [|discriminate] end.
      destruct (resolve_list (resolve_vars f) (names :: sc) body) as [[body' sc1]|] eqn:Eb; [|discriminate].
      injection H as <- <-. unfold WL. cbn [erase map]. do 3 f_equal.
      cbn [forallb] in Hrest. apply andb_prop in Hrest as [_ Hbody]. apply (Htail _ _ _ _ Hbody Eb).
Qed.

Corollary resolve_erase start e e' : binary_defines e = true -> resolve start e = RsOk e' -> erase e' = erase e.
Proof.
  unfold resolve. intros Hb H. destruct (resolve_vars (S (val_depth e)) [start] e) as [[v sc]|] eqn:E; [|discriminate].
  injection H as <-. apply (resolve_vars_erase _ _ _ _ _ Hb E).
Qed.
