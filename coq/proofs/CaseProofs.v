(** CaseProofs.v — (case kf clause ...) selects by the VALUE of the key form (C06): the body of the first clause whose
    key equals the value is the one that runs, the default clause runs when no key equals it — wherever the default
    clause stands — and no other body is evaluated.  Premise: the clause list is well formed (every clause a list
    with a key, keys pairwise different as texts), stated as the two facts the operator itself checks first. *)
From WalModel Require Import Eval.
From Coq Require Import Lia List.
Local Open Scope Z_scope.

(** the specification: which body runs *)
Fixpoint case_select (v : val) (cs : list val) (default : option (list val)) : option (option (list val)) :=
  match cs with
  | [] => Some default
  | VList _ (k :: body) :: r =>
      match py_eq v k with
      | None => None
      | Some true => Some (Some body)
      | Some false => match k with
                      | VSym "default" _ => case_select v r (Some body)
                      | _ => case_select v r default
                      end
      end
  | _ => None
  end.

Definition case_keys (clauses : list val) : M (list string) :=
  mapM (fun c => match c with
                 | VList _ (k :: _) => match case_key_str k with Some s => ret s | None => unm "case key" end
                 | VList _ [] => fail EOther
                 | _ => fail EOther
                 end) clauses.

Lemma default_match {A} (s : string) (x y : A) :
  (match s with "default" => x | _ => y end) = if String.eqb s "default" then x else y.
Proof.
  do 7 (destruct s as [|[[|] [|] [|] [|] [|] [|] [|] [|]] s]; try reflexivity).
  destruct s; reflexivity.
Qed.

Section Case.
  Variable ev : val -> M val.

  Theorem case_runs_the_selected_body kf clauses v keys sel st st1 :
    ev kf st = Ok v st1 ->
    case_keys clauses st1 = Ok keys st1 ->
    List.length (dedup_str keys []) = List.length clauses ->
    case_select v clauses None = Some sel ->
    op_case ev (kf :: clauses) st =
      match sel with
      | Some body => (vs <- eval_args ev body ;; last_or_index_error vs) st1
      | None => Ok VNone st1
      end.
  Proof.
    intros Hk Hkeys Hlen Hsel. unfold op_case. cbn [List.length Nat.eqb negb assert]. unfold bind at 1. cbn [ret].
    unfold bind at 1. rewrite Hk. unfold bind at 1. fold (case_keys clauses). rewrite Hkeys.
    unfold bind at 1. rewrite Hlen, Nat.eqb_refl. cbn [require ret].
    revert Hsel. generalize (@None (list val)). clear Hkeys Hlen Hk.
    induction clauses as [|c r IH]; intros d Hsel.
    - cbn [case_select] in Hsel. injection Hsel as <-. destruct d; reflexivity.
    - cbn [case_select] in Hsel. destruct c; try discriminate. match goal with H : context [match ?l with [] => _ | _ :: _ => _ end] |- _ => destruct l as [|k body]; [discriminate|] end.
      destruct (py_eq v k) as [[|]|] eqn:E; [| |discriminate].
      + injection Hsel as <-. cbn -[py_eq eval_args last_or_index_error]. try rewrite E. reflexivity.
      + cbn -[py_eq eval_args last_or_index_error case_select]. try rewrite E.
        destruct k; try (apply IH; exact Hsel).
        rewrite default_match in Hsel. rewrite default_match.
        destruct (String.eqb _ "default"); apply IH; exact Hsel.
  Qed.
End Case.

(** selection is by value: a comparison result selects the clause 1 / 0, a string never selects a number clause, and
    the default clause is taken only when no key equals the value, wherever it stands *)
Example case_select_by_value :
  let cl k b := PL [k; b] in
  case_select (VBool true) [cl (VInt 1) (VStr "one"); cl (VInt 0) (VStr "zero"); cl (VSym "default" None) (VStr "d")] None
    = Some (Some [VStr "one"]) /\
  case_select (VBool false) [cl (VInt 1) (VStr "one"); cl (VInt 0) (VStr "zero"); cl (VSym "default" None) (VStr "d")] None
    = Some (Some [VStr "zero"]) /\
  case_select (VStr "1") [cl (VInt 1) (VStr "one"); cl (VSym "default" None) (VStr "d")] None = Some (Some [VStr "d"]) /\
  case_select (VInt 2) [cl (VSym "default" None) (VStr "d"); cl (VInt 2) (VStr "two")] None = Some (Some [VStr "two"]) /\
  case_select (VInt 3) [cl (VInt 2) (VStr "two")] None = Some None.
Proof. repeat split. Qed.
