(** ReadWhole.v — a single-expression read consumes the entire input (C10): whenever it succeeds nothing is left over,
    and a text with something left after the first expression is rejected. *)
From WalModel Require Import Reader.

Theorem read_consumes_the_whole_text s v r : read_sexpr s = ROk v r -> r = EmptyString.
Proof.
  unfold read_sexpr. destruct (negb (modelled_text s)); [discriminate|].
  destruct (p_sexpr (reader_fuel s) s) as [v' r'| |]; try discriminate.
  destruct r'; [intros H; injection H as _ <-; reflexivity|discriminate].
Qed.

Theorem leftover_text_is_an_error s v c r :
  modelled_text s = true -> p_sexpr (reader_fuel s) s = ROk v (String c r) -> read_sexpr s = RErr.
Proof. intros Hm H. unfold read_sexpr. rewrite Hm, H. reflexivity. Qed.

Example two_expressions_are_rejected : read_sexpr "1 2" = RErr /\ read_sexpr "(+ 1 2) (exit 1)" = RErr /\ read_sexpr "1 " = ROk (VInt 1) "".
Proof. vm_compute. repeat split. Qed.
