(** RangeProofs.v — (range a b s) for every non-zero step, ascending or descending (C14).
    [range_is_interval] (ListProofs.v) covers step 1 only; here the list is shown to be exactly the arithmetic
    progression a, a+s, a+2s, ... restricted to the side of b the sign of s selects — every such element, in
    order, nothing else — and the evaluator's (range ..) to return it. *)
From WalModel Require Import Eval.
From WalModel.proofs Require Import ListProofs.
From Coq Require Import Lia ZArith List.
Local Open Scope Z_scope.

Definition range_side (b s x : Z) : Prop := if 0 <? s then x < b else b < x.
Definition range_count (a b s : Z) : nat :=
  Z.to_nat (if 0 <? s then (b - a + s - 1) / s else (a - b + (- s) - 1) / (- s)).
Definition progression (a s : Z) (n : nat) : list Z := map (fun k => a + Z.of_nat k * s) (seq 0 n).

Lemma progression_S a s n : progression a s (S n) = a :: progression (a + s) s n.
Proof.
  unfold progression. cbn [seq map]. f_equal; [lia|]. rewrite <- seq_shift, map_map.
  apply map_ext. intros k. lia.
Qed.

Lemma range_up_all : forall n cur stop s,
  (forall k, (k < n)%nat ->
     ((0 <? s) && (cur + Z.of_nat k * s <? stop) || (s <? 0) && (stop <? cur + Z.of_nat k * s)) = true) ->
  range_up n cur stop s = progression cur s n.
Proof.
  induction n as [|n IH]; intros cur stop s H; [reflexivity|].
  rewrite progression_S. cbn [range_up].
  assert (H0 := H O ltac:(lia)). replace (cur + Z.of_nat 0 * s) with cur in H0 by lia. rewrite H0.
  f_equal. apply IH. intros k Hk. assert (Hs := H (S k) ltac:(lia)).
  replace (cur + s + Z.of_nat k * s) with (cur + Z.of_nat (S k) * s) by lia. exact Hs.
Qed.

(** k is below the count exactly when a + k*s is still on the proper side of b *)
Lemma count_pos a b s k : 0 < s -> 0 <= k -> (a + k * s < b <-> k < (b - a + s - 1) / s).
Proof.
  intros Hs Hk. split; intros H.
  - assert (Hd : k + 1 <= (b - a + s - 1) / s).
    { apply Z.div_le_lower_bound; [exact Hs|]. replace (s * (k + 1)) with (k * s + s) by ring. lia. }
    lia.
  - assert (Hd : s * ((b - a + s - 1) / s) <= b - a + s - 1) by (apply Z.mul_div_le; lia).
    assert (Hm : s * (k + 1) <= s * ((b - a + s - 1) / s)) by (apply Z.mul_le_mono_nonneg_l; lia).
    replace (s * (k + 1)) with (k * s + s) in Hm by ring. lia.
Qed.

Theorem range_side_count a b s k : s <> 0 -> 0 <= k ->
  (range_side b s (a + k * s) <-> k < Z.of_nat (range_count a b s)).
Proof.
  intros Hs Hk. unfold range_side, range_count. destruct (Z.ltb_spec 0 s) as [Hp|Hn].
  - rewrite (count_pos a b s k Hp Hk). remember ((b - a + s - 1) / s) as q. lia.
  - assert (Hp : 0 < - s) by lia.
    assert (E := count_pos (- a) (- b) (- s) k Hp Hk).
    replace (- b - - a + - s - 1) with (a - b + - s - 1) in E by lia.
    split; intros H.
    + assert (H' : - a + k * - s < - b) by lia. apply E in H'. remember ((a - b + - s - 1) / - s) as q. lia.
    + assert (H' : k < (a - b + - s - 1) / - s).
      { remember ((a - b + - s - 1) / - s) as q. lia. }
      apply E in H'. lia.
Qed.

(** the list: every element of the progression on the proper side of b, in order, and nothing else *)
Theorem range_is_progression a b s : s <> 0 ->
  py_range a b s = progression a s (range_count a b s).
Proof.
  intros Hs. unfold py_range. fold (range_count a b s). apply range_up_all. intros k Hk.
  assert (Hc := proj2 (range_side_count a b s (Z.of_nat k) Hs ltac:(lia)) ltac:(lia)).
  unfold range_side in Hc. destruct (Z.ltb_spec 0 s) as [Hp|Hn].
  - cbn [andb]. apply orb_true_iff. left. apply Z.ltb_lt. exact Hc.
  - cbn [andb orb]. apply andb_true_intro. split; apply Z.ltb_lt; lia.
Qed.

Theorem range_membership a b s x : s <> 0 ->
  (In x (py_range a b s) <-> exists k, 0 <= k /\ x = a + k * s /\ range_side b s x).
Proof.
  intros Hs. rewrite (range_is_progression a b s Hs). unfold progression. rewrite in_map_iff. split.
  - intros [k [E Hin]]. apply in_seq in Hin. exists (Z.of_nat k). subst x. repeat split; [lia|].
    apply (range_side_count a b s (Z.of_nat k) Hs); lia.
  - intros [k [Hk [E Hside]]]. subst x. apply (range_side_count a b s k Hs Hk) in Hside.
    exists (Z.to_nat k). split; [rewrite Z2Nat.id; lia|]. apply in_seq. lia.
Qed.

Theorem range_length a b s : s <> 0 -> List.length (py_range a b s) = range_count a b s.
Proof. intros Hs. rewrite (range_is_progression a b s Hs). unfold progression. rewrite map_length, seq_length. reflexivity. Qed.

(** the evaluator's operator: three integer operands, non-zero step *)
Theorem op_range_three (ev : val -> M val) x y z a b s st st' : s <> 0 ->
  eval_args ev [x; y; z] st = Ok [VInt a; VInt b; VInt s] st' ->
  op_range ev [x; y; z] st = Ok (PL (map VInt (progression a s (range_count a b s)))) st'.
Proof.
  intros Hs H. unfold op_range. change ((1 <=? zlen [x; y; z]) && (zlen [x; y; z] <=? 3)) with true. cbn [assert].
  unfold bind at 1. cbn [ret]. unfold bind at 1. rewrite H. unfold bind, assert. cbn [forallb is_int_val andb map_opt int_of]. destruct (Z.eqb_spec s 0) as [E|_]; [contradiction|].
  rewrite (range_is_progression a b s Hs). reflexivity.
Qed.

Theorem op_range_zero_step (ev : val -> M val) x y z a b st st' :
  eval_args ev [x; y; z] st = Ok [VInt a; VInt b; VInt 0] st' ->
  exists e, op_range ev [x; y; z] st = Er e st'.
Proof.
  intros H. unfold op_range. change ((1 <=? zlen [x; y; z]) && (zlen [x; y; z] <=? 3)) with true. cbn [assert].
  unfold bind at 1. cbn [ret]. unfold bind at 1. rewrite H. unfold bind, assert. cbn [forallb is_int_val andb map_opt int_of Z.eqb]. eexists. reflexivity.
Qed.

Example range_descending : py_range 7 0 (-3) = [7; 4; 1] /\ range_count 7 0 (-3) = 3%nat /\ py_range 0 7 (-3) = [].
Proof. repeat split. Qed.
