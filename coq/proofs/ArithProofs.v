(** ArithProofs.v — lemmas for C09 (exact integer / bit-vector arithmetic). *)
From WalModel Require Import Arith.
From Coq Require Import ZifyBool.
Local Open Scope Z_scope.

(** * Bit and slice *)
Lemma testbit_b2z (b : bool) (n : Z) : 0 <= n -> Z.testbit (Z.b2z b) n = b && (n =? 0).
Proof.
  intros Hn. destruct b; cbn [Z.b2z andb].
  - destruct (Z.eqb_spec n 0) as [->|Hne]; [reflexivity|].
    rewrite Z.bits_above_log2; [reflexivity|lia| cbn; lia].
  - apply Z.bits_0.
Qed.

Lemma testbit_one (n : Z) : 0 <= n -> Z.testbit 1 n = (n =? 0).
Proof. intros Hn. change 1 with (Z.b2z true). rewrite testbit_b2z by lia. reflexivity. Qed.

Lemma slice1_spec (x i : Z) : 0 <= i -> slice1 x i = Some (Z.b2z (Z.testbit x i)).
Proof.
  intros Hi. unfold slice1. destruct (Z.ltb_spec i 0) as [|_]; [lia|]. f_equal.
  apply Z.bits_inj'. intros n Hn.
  rewrite Z.shiftr_spec by lia. rewrite Z.land_spec.
  rewrite Z.shiftl_spec by lia. replace (n + i - i) with n by lia.
  rewrite testbit_b2z, testbit_one by lia.
  destruct (Z.eqb_spec n 0) as [->|Hne].
  - replace (0 + i) with i by lia. rewrite !andb_true_r. reflexivity.
  - rewrite !andb_false_r. reflexivity.
Qed.

Lemma testbit_ones_shift (k n : Z) : 0 <= k -> 0 <= n -> Z.testbit (Z.shiftl 1 k - 1) n = (n <? k).
Proof.
  intros Hk Hn.
  replace (Z.shiftl 1 k - 1) with (Z.ones k) by (rewrite Z.ones_equiv, Z.shiftl_1_l; lia).
  destruct (Z.ltb_spec n k).
  - apply Z.ones_spec_low; lia.
  - apply Z.ones_spec_high; lia.
Qed.

Lemma slice2_spec (x h l : Z) :
  0 <= l -> l <= h -> slice2 x h l = Some ((x / 2 ^ l) mod 2 ^ (h - l + 1)).
Proof.
  intros Hl Hh. unfold slice2.
  destruct (Z.ltb_spec (h - l + 1) 0); [lia|].
  destruct (Z.ltb_spec l 0); [lia|]. cbn [orb]. f_equal.
  apply Z.bits_inj'. intros n Hn.
  rewrite Z.shiftr_spec by lia. rewrite Z.land_spec.
  rewrite Z.shiftl_spec by lia. replace (n + l - l) with n by lia.
  rewrite testbit_ones_shift by lia.
  rewrite <- Z.shiftr_div_pow2 by lia.
  destruct (Z.ltb_spec n (h - l + 1)).
  - rewrite Z.mod_pow2_bits_low by lia. rewrite Z.shiftr_spec by lia. apply andb_true_r.
  - rewrite Z.mod_pow2_bits_high by lia. apply andb_false_r.
Qed.

(** adjacent slices reassemble: x[h:m+1] * 2^(m+1-l) + x[m:l] = x[h:l] *)
Lemma slice_concat_Z (y k1 k2 : Z) :
  0 <= k1 -> 0 <= k2 ->
  ((y / 2 ^ k1) mod 2 ^ k2) * 2 ^ k1 + y mod 2 ^ k1 = y mod 2 ^ (k1 + k2).
Proof.
  intros H1 H2. rewrite Z.pow_add_r by lia.
  rewrite Z.rem_mul_r by (apply Z.pow_nonzero + apply Z.pow_pos_nonneg; lia). lia.
Qed.

Lemma slice_concat (x h m l : Z) (a b c : Z) :
  0 <= l -> l <= m -> m < h ->
  slice2 x h (m + 1) = Some a -> slice2 x m l = Some b -> slice2 x h l = Some c ->
  a * 2 ^ (m + 1 - l) + b = c.
Proof.
  intros Hl Hm Hh Ha Hb Hc.
  rewrite slice2_spec in Ha, Hb, Hc by lia.
  injection Ha as <-. injection Hb as <-. injection Hc as <-.
  set (y := x / 2 ^ l).
  replace (x / 2 ^ (m + 1)) with (y / 2 ^ (m + 1 - l)).
  - replace (h - (m + 1) + 1) with (h - m) by lia.
    replace (h - l + 1) with ((m + 1 - l) + (h - m)) by lia.
    replace (m - l + 1) with (m + 1 - l) by lia.
    apply slice_concat_Z; lia.
  - unfold y. rewrite Z.div_div by (try apply Z.pow_nonzero; try apply Z.pow_pos_nonneg; lia).
    rewrite <- Z.pow_add_r by lia. f_equal. f_equal. lia.
Qed.

(** * Numerals *)
Lemma digit_val_char (d : Z) : 0 <= d < 36 -> digit_val (digit_char d) = Some d.
Proof.
  intros Hd. unfold digit_char, digit_val, ascii_Z.
  destruct (Z.ltb_spec d 10).
  - rewrite N_ascii_embedding by lia. rewrite Z2N.id by lia.
    destruct ((48 <=? 48 + d) && (48 + d <=? 57)) eqn:E; [f_equal; lia|lia].
  - rewrite N_ascii_embedding by lia. rewrite Z2N.id by lia.
    destruct ((48 <=? 97 + d - 10) && (97 + d - 10 <=? 57)) eqn:E1; [lia|].
    destruct ((97 <=? 97 + d - 10) && (97 + d - 10 <=? 122)) eqn:E2; [f_equal; lia|lia].
Qed.

Lemma digits_val_acc_app (b : Z) (s t : string) (acc : Z) :
  digits_val_acc b (s ++ t) acc =
  match digits_val_acc b s acc with
  | Some a => digits_val_acc b t a
  | None => None
  end.
Proof.
  revert acc. induction s as [|c s IH]; intros acc; cbn [append digits_val_acc]; [reflexivity|].
  destruct (digit_val c) as [d|]; [|reflexivity].
  destruct (d <? b); [apply IH|reflexivity].
Qed.

Lemma slen_nonneg (s : string) : 0 <= slen s.
Proof. induction s; cbn [slen]; lia. Qed.

Lemma numeral_fuel_S (f : nat) (b z : Z) (acc : string) :
  numeral_fuel (S f) b z acc =
  if z <? b then String (digit_char z) acc
  else numeral_fuel f b (z / b) (String (digit_char (z mod b)) acc).
Proof. reflexivity. Qed.

Lemma numeral_fuel_spec (fuel : nat) (b : Z) :
  2 <= b <= 36 ->
  forall z acc v,
    0 <= z -> z < 2 ^ Z.of_nat fuel ->
    (forall a0, digits_val_acc b acc a0 = Some (a0 * b ^ slen acc + v)) ->
    exists n, 0 <= n /\ slen (numeral_fuel (S fuel) b z acc) = n + slen acc /\ (z = 0 \/ b ^ (n - 1) <= z) /\ z < b ^ n /\ 1 <= n /\
    forall a0, digits_val_acc b (numeral_fuel (S fuel) b z acc) a0
               = Some (a0 * b ^ (n + slen acc) + (z * b ^ slen acc + v)).
Proof.
  intros Hb. induction fuel as [|fuel IH]; intros z acc v Hz Hlt Hacc.
  - (* z < 1 *)
    assert (z = 0) by (cbn in Hlt; lia). subst z.
    rewrite numeral_fuel_S. destruct (Z.ltb_spec 0 b); [|lia].
    exists 1. change (1 - 1) with 0. rewrite Z.pow_0_r, Z.pow_1_r.
    split; [lia|]. split; [cbn [slen]; lia|]. split; [lia|]. split; [lia|]. split; [lia|].
    intros a0. cbn [digits_val_acc]. rewrite digit_val_char by lia.
    destruct (Z.ltb_spec 0 b); [|lia]. rewrite Hacc.
    pose proof (slen_nonneg acc). rewrite Z.pow_add_r by lia. rewrite Z.pow_1_r. f_equal. lia.
  - rewrite numeral_fuel_S.
    destruct (Z.ltb_spec z b) as [Hzb|Hzb].
    + exists 1. change (1 - 1) with 0. rewrite Z.pow_0_r, Z.pow_1_r.
      split; [lia|]. split; [cbn [slen]; lia|]. split; [lia|]. split; [lia|]. split; [lia|].
      intros a0. cbn [digits_val_acc]. rewrite digit_val_char by lia.
      destruct (Z.ltb_spec z b); [|lia]. rewrite Hacc.
      pose proof (slen_nonneg acc). rewrite Z.pow_add_r by lia. rewrite Z.pow_1_r. f_equal. lia.
    + assert (Hdiv : 0 <= z / b) by (apply Z.div_pos; lia).
      assert (Hmod : 0 <= z mod b < b) by (apply Z.mod_pos_bound; lia).
      assert (Hlt' : z / b < 2 ^ Z.of_nat fuel).
      { apply Z.div_lt_upper_bound; [lia|].
        replace (Z.of_nat (S fuel)) with (Z.of_nat fuel + 1) in Hlt by lia.
        rewrite Z.pow_add_r in Hlt by lia.
        assert (0 < 2 ^ Z.of_nat fuel) by (apply Z.pow_pos_nonneg; lia). nia. }
      pose proof (slen_nonneg acc) as Hsl.
      destruct (IH (z / b) (String (digit_char (z mod b)) acc) ((z mod b) * b ^ slen acc + v) Hdiv Hlt')
        as (n & Hn0 & Hlen & Hlow & Hhigh & Hn1 & Hval).
      { intros a0. cbn [digits_val_acc slen]. rewrite digit_val_char by lia.
        destruct (Z.ltb_spec (z mod b) b); [|lia]. rewrite Hacc.
        rewrite Z.pow_add_r by lia. f_equal. lia. }
      exists (n + 1). cbn [slen] in Hlen, Hval.
      assert (Hzdiv : z = b * (z / b) + z mod b) by (apply Z.div_mod; lia).
      assert (Hbn : 0 < b ^ (n - 1)) by (apply Z.pow_pos_nonneg; lia).
      split; [lia|]. split; [lia|].
      split.
      { right. replace (n + 1 - 1) with ((n - 1) + 1) by lia. rewrite Z.pow_add_r, Z.pow_1_r by lia.
        destruct Hlow as [H0|Hlow]; [|nia].
        (* z/b = 0 contradicts z >= b *)
        assert (z < b) by (rewrite Hzdiv, H0; lia). lia. }
      split.
      { rewrite Z.pow_add_r, Z.pow_1_r by lia. nia. }
      split; [lia|].
      intros a0. rewrite Hval. f_equal.
      replace (n + (1 + slen acc)) with (n + 1 + slen acc) by lia.
      rewrite (Z.pow_add_r b 1 (slen acc)) by lia.
      rewrite Z.pow_1_r. nia.
Qed.

Lemma log2_fuel (z : Z) : 0 <= z -> z < 2 ^ Z.of_nat (Z.to_nat (Z.log2 z + 1)).
Proof.
  intros Hz. rewrite Z2Nat.id by (pose proof (Z.log2_nonneg z); lia).
  destruct (Z.eq_dec z 0) as [->|Hne]; [cbn; lia|].
  apply Z.log2_spec. lia.
Qed.

Theorem numeral_value (b z : Z) :
  2 <= b <= 36 -> 0 <= z -> digits_val b (numeral b z) = Some z.
Proof.
  intros Hb Hz. unfold numeral.
  destruct (numeral_fuel_spec (Z.to_nat (Z.log2 z + 1)) b Hb z EmptyString 0 Hz (log2_fuel z Hz))
    as (n & Hn0 & Hlen & _ & _ & Hn1 & Hval).
  { intros a0. cbn [digits_val_acc slen]. f_equal. lia. }
  unfold digits_val.
  destruct (numeral_fuel _ b z "") eqn:E.
  - cbn [slen] in Hlen. lia.
  - rewrite Hval. f_equal. cbn [slen]. lia.
Qed.

Lemma numeral_length (b z : Z) :
  2 <= b <= 36 -> 0 <= z ->
  exists n, slen (numeral b z) = n /\ 1 <= n /\ z < b ^ n /\ (z = 0 \/ b ^ (n - 1) <= z).
Proof.
  intros Hb Hz. unfold numeral.
  destruct (numeral_fuel_spec (Z.to_nat (Z.log2 z + 1)) b Hb z EmptyString 0 Hz (log2_fuel z Hz))
    as (n & Hn0 & Hlen & Hlow & Hhigh & Hn1 & _).
  { intros a0. cbn [digits_val_acc slen]. f_equal. lia. }
  exists n. cbn [slen] in Hlen. repeat split; try lia.
Qed.

(** a numeral does not start with a sign, so int() reads it back *)
Lemma numeral_first_digit (b z : Z) (c : ascii) (r : string) :
  2 <= b <= 36 -> 0 <= z -> numeral b z = String c r -> exists d, digit_val c = Some d.
Proof.
  intros Hb Hz E. pose proof (numeral_value b z Hb Hz) as Hv. rewrite E in Hv.
  unfold digits_val in Hv. cbn [digits_val_acc] in Hv.
  destruct (digit_val c) as [d|]; [eauto|discriminate].
Qed.

Lemma py_int_unsigned_numeral (b z : Z) :
  2 <= b <= 36 -> 0 <= z -> py_int_unsigned b (numeral b z) = IntOk z.
Proof. intros Hb Hz. unfold py_int_unsigned. rewrite numeral_value by assumption. reflexivity. Qed.

Theorem py_int_numeral (b z : Z) :
  2 <= b <= 36 -> 0 <= z -> py_int b (numeral b z) = IntOk z.
Proof.
  intros Hb Hz. unfold py_int.
  destruct (numeral b z) as [|c r] eqn:E.
  - pose proof (numeral_value b z Hb Hz) as Hv. rewrite E in Hv. discriminate.
  - destruct (numeral_first_digit b z c r Hb Hz E) as [d Hd].
    rewrite <- E.
    assert (Hc : c <> "-"%char /\ c <> "+"%char).
    { split; intros ->; vm_compute in Hd; discriminate. }
    destruct Hc as [Hm Hp].
    rewrite E.
    destruct c as [[] [] [] [] [] [] [] []]; try (rewrite <- E; apply py_int_unsigned_numeral; assumption);
      exfalso; (apply Hm; reflexivity) || (apply Hp; reflexivity).
Qed.

(** decimal text of any integer reads back (int->string then string->int) *)
Theorem dec_roundtrip (z : Z) : py_int 10 (int_to_string z) = IntOk z.
Proof.
  unfold int_to_string, dec_of_Z. destruct (Z.ltb_spec z 0) as [Hneg|Hpos].
  - cbn [py_int].
    destruct (numeral 10 (- z)) as [|c r] eqn:E.
    + pose proof (numeral_value 10 (- z) ltac:(lia) ltac:(lia)) as Hv. rewrite E in Hv. discriminate.
    + destruct (numeral_first_digit 10 (- z) c r ltac:(lia) ltac:(lia) E) as [d Hd].
      assert (Hs : is_int_special c = false).
      { destruct c as [[] [] [] [] [] [] [] []]; try reflexivity; vm_compute in Hd; discriminate. }
      rewrite Hs. rewrite <- E. rewrite py_int_unsigned_numeral by lia. f_equal. lia.
  - apply py_int_numeral; lia.
Qed.

(** * convert/bin *)
Lemma digits_val_acc_zeros (n : nat) (s : string) (acc : Z) :
  digits_val_acc 2 (zeros n ++ s) acc = digits_val_acc 2 s (acc * 2 ^ Z.of_nat n).
Proof.
  revert acc. induction n as [|n IH]; intros acc.
  - cbn [zeros append]. f_equal. lia.
  - cbn [zeros append digits_val_acc]. change (digit_val "0"%char) with (Some 0).
    cbn [Z.ltb Z.compare]. rewrite IH. f_equal.
    rewrite Nat2Z.inj_succ, Z.pow_succ_r by lia. lia.
Qed.

Lemma slen_app (s t : string) : slen (s ++ t) = slen s + slen t.
Proof. induction s as [|c s IH]; cbn [append slen]; lia. Qed.

Lemma slen_zeros (n : nat) : slen (zeros n) = Z.of_nat n.
Proof. induction n as [|n IH]; cbn [zeros slen]; lia. Qed.

Theorem convert_bin_value (v w : Z) :
  0 <= v -> unsigned_bits (convert_bin v w) = Some v.
Proof.
  intros Hv. unfold convert_bin, unsigned_bits.
  destruct (Z.ltb_spec v 0); [lia|].
  pose proof (numeral_value 2 v ltac:(lia) Hv) as Hn.
  unfold digits_val in *.
  destruct (numeral 2 v) as [|c r] eqn:E; [discriminate|].
  destruct (zeros (Z.to_nat (w - slen (String c r))) ++ String c r) eqn:E2.
  - destruct (Z.to_nat (w - slen (String c r))); cbn in E2; discriminate.
  - rewrite <- E2. rewrite digits_val_acc_zeros. cbn [Z.mul]. exact Hn.
Qed.

Theorem convert_bin_length (v w : Z) :
  0 <= v -> slen (convert_bin v w) = Z.max w (slen (numeral 2 v)).
Proof.
  intros Hv. unfold convert_bin. destruct (Z.ltb_spec v 0); [lia|].
  rewrite slen_app, slen_zeros. pose proof (slen_nonneg (numeral 2 v)). lia.
Qed.

(** * bits->sint *)
Definition is_bit (c : ascii) : bool := Ascii.eqb c "0"%char || Ascii.eqb c "1"%char.

(** with a non-negative accumulator offset: value(flip s) = 2^|s| - 1 - value(s) *)
Lemma flip_val_pos (s : string) :
  sall is_bit s = true ->
  forall acc acc' u, digits_val_acc 2 s acc = Some u ->
  digits_val_acc 2 (smap flip_bit s) acc' = Some ((acc + acc' + 1) * 2 ^ slen s - 1 - u).
Proof.
  induction s as [|c s IH]; intros Hb acc acc' u Hu.
  - cbn in *. injection Hu as <-. f_equal. lia.
  - cbn [sall] in Hb. apply andb_true_iff in Hb as [Hc Hs].
    cbn [smap digits_val_acc slen] in *.
    pose proof (slen_nonneg s) as Hl.
    unfold is_bit in Hc. apply orb_true_iff in Hc as [Hc|Hc]; apply Ascii.eqb_eq in Hc; subst c.
    + change (flip_bit "0"%char) with "1"%char.
      change (digit_val "1"%char) with (Some 1). change (digit_val "0"%char) with (Some 0) in Hu.
      cbn [Z.ltb Z.compare] in *.
      rewrite (IH Hs (acc * 2 + 0) (acc' * 2 + 1) u Hu). apply f_equal. rewrite Z.pow_add_r by lia. change (2 ^ 1) with 2. ring.
    + change (flip_bit "1"%char) with "0"%char.
      change (digit_val "0"%char) with (Some 0). change (digit_val "1"%char) with (Some 1) in Hu.
      cbn [Z.ltb Z.compare] in *.
      rewrite (IH Hs (acc * 2 + 1) (acc' * 2 + 0) u Hu). apply f_equal. rewrite Z.pow_add_r by lia. change (2 ^ 1) with 2. ring.
Qed.

Lemma bits_digits (s : string) :
  sall is_bit s = true -> forall acc, exists u, digits_val_acc 2 s acc = Some u.
Proof.
  induction s as [|c s IH]; intros Hb acc; [eexists; reflexivity|].
  cbn [sall] in Hb. apply andb_true_iff in Hb as [Hc Hs].
  cbn [digits_val_acc].
  unfold is_bit in Hc. apply orb_true_iff in Hc as [Hc|Hc]; apply Ascii.eqb_eq in Hc; subst c.
  - change (digit_val "0"%char) with (Some 0). cbn [Z.ltb Z.compare]. apply IH, Hs.
  - change (digit_val "1"%char) with (Some 1). cbn [Z.ltb Z.compare]. apply IH, Hs.
Qed.

Definition msb_of (s : string) : Z :=
  match s with String c _ => if Ascii.eqb c "1"%char then 1 else 0 | EmptyString => 0 end.

Theorem bits_to_sint_spec (s : string) (u : Z) :
  s <> EmptyString -> sall is_bit s = true -> unsigned_bits s = Some u ->
  bits_to_sint s = Some (IntOk (u - msb_of s * 2 ^ slen s)).
Proof.
  intros Hne Hb Hu. destruct s as [|c r]; [congruence|].
  unfold bits_to_sint, msb_of. unfold unsigned_bits, digits_val in Hu.
  pose proof Hb as Hb'. cbn [sall] in Hb'. apply andb_true_iff in Hb' as [Hc Hr].
  unfold is_bit in Hc. apply orb_true_iff in Hc as [Hc|Hc]; apply Ascii.eqb_eq in Hc; subst c.
  - (* leading 0: plain int(s, 2) *)
    change (Ascii.eqb "0" "1") with false. cbn iota.
    unfold py_int, py_int_unsigned, digits_val. rewrite Hu. f_equal. f_equal. lia.
  - change (Ascii.eqb "1" "1") with true. cbn iota.
    cbn [smap]. change (flip_bit "1"%char) with "0"%char.
    unfold py_int, py_int_unsigned, digits_val.
    pose proof (flip_val_pos (String "1" r) Hb 0 0 u Hu) as Hf.
    cbn [smap] in Hf. change (flip_bit "1"%char) with "0"%char in Hf.
    rewrite Hf. f_equal. f_equal. lia.
Qed.


(** * (signed s): two's-complement reading of the w-bit pattern of v *)
Lemma sall_app (p : ascii -> bool) (s t : string) : sall p (s ++ t) = sall p s && sall p t.
Proof. induction s as [|c s IH]; cbn [append sall]; [reflexivity|]. rewrite IH, andb_assoc. reflexivity. Qed.

Lemma sall_zeros (n : nat) : sall is_bit (zeros n) = true.
Proof. induction n as [|n IH]; cbn [zeros sall]; [reflexivity|]. rewrite IH. reflexivity. Qed.

Lemma is_bit_digit_char (d : Z) : 0 <= d < 2 -> is_bit (digit_char d) = true.
Proof. intros Hd. assert (d = 0 \/ d = 1) as [-> | ->] by lia; reflexivity. Qed.

Lemma numeral_fuel_bits (fuel : nat) : forall z acc,
  0 <= z -> sall is_bit acc = true -> sall is_bit (numeral_fuel fuel 2 z acc) = true.
Proof.
  induction fuel as [|fuel IH]; intros z acc Hz Hacc; [exact Hacc|].
  rewrite numeral_fuel_S. destruct (Z.ltb_spec z 2).
  - cbn [sall]. rewrite is_bit_digit_char by lia. exact Hacc.
  - apply IH; [apply Z.div_pos; lia|].
    cbn [sall]. rewrite is_bit_digit_char by (apply Z.mod_pos_bound; lia). exact Hacc.
Qed.

Lemma numeral2_bits (z : Z) : 0 <= z -> sall is_bit (numeral 2 z) = true.
Proof. intros Hz. unfold numeral. apply numeral_fuel_bits; [exact Hz|reflexivity]. Qed.

Lemma convert_bin_bits (v w : Z) : 0 <= v -> sall is_bit (convert_bin v w) = true.
Proof.
  intros Hv. unfold convert_bin. destruct (Z.ltb_spec v 0); [lia|].
  rewrite sall_app, sall_zeros, numeral2_bits by lia. reflexivity.
Qed.

(** value of a bit string relative to its accumulator, and the msb split *)
Lemma bits_val_bound (s : string) :
  sall is_bit s = true -> forall acc u, digits_val_acc 2 s acc = Some u ->
  acc * 2 ^ slen s <= u < (acc + 1) * 2 ^ slen s.
Proof.
  induction s as [|c s IH]; intros Hb acc u Hu.
  - cbn in *. injection Hu as <-. lia.
  - cbn [sall] in Hb. apply andb_true_iff in Hb as [Hc Hs].
    cbn [digits_val_acc slen] in *. pose proof (slen_nonneg s) as Hl.
    rewrite Z.pow_add_r by lia. change (2 ^ 1) with 2.
    assert (Hp : 0 < 2 ^ slen s) by (apply Z.pow_pos_nonneg; lia).
    unfold is_bit in Hc. apply orb_true_iff in Hc as [Hc|Hc]; apply Ascii.eqb_eq in Hc; subst c.
    + change (digit_val "0"%char) with (Some 0) in Hu. cbn [Z.ltb Z.compare] in Hu.
      specialize (IH Hs _ _ Hu). nia.
    + change (digit_val "1"%char) with (Some 1) in Hu. cbn [Z.ltb Z.compare] in Hu.
      specialize (IH Hs _ _ Hu). nia.
Qed.

Lemma msb_split (s : string) (u : Z) :
  s <> EmptyString -> sall is_bit s = true -> unsigned_bits s = Some u ->
  0 <= u < 2 ^ slen s /\ (msb_of s = 1 <-> 2 ^ (slen s - 1) <= u) /\ (msb_of s = 0 \/ msb_of s = 1).
Proof.
  intros Hne Hb Hu. destruct s as [|c r]; [congruence|].
  unfold unsigned_bits, digits_val in Hu.
  pose proof (bits_val_bound _ Hb 0 u Hu) as Hbound.
  split; [lia|].
  cbn [sall] in Hb. apply andb_true_iff in Hb as [Hc Hr].
  cbn [digits_val_acc slen msb_of] in *. pose proof (slen_nonneg r) as Hl.
  replace (1 + slen r - 1) with (slen r) by lia.
  unfold is_bit in Hc. apply orb_true_iff in Hc as [Hc|Hc]; apply Ascii.eqb_eq in Hc; subst c.
  - change (digit_val "0"%char) with (Some 0) in Hu. cbn [Z.ltb Z.compare] in Hu.
    change (Ascii.eqb "0" "1") with false. cbn iota.
    pose proof (bits_val_bound _ Hr _ _ Hu). split; [|lia]. split; [discriminate|lia].
  - change (digit_val "1"%char) with (Some 1) in Hu. cbn [Z.ltb Z.compare] in Hu.
    change (Ascii.eqb "1" "1") with true. cbn iota.
    pose proof (bits_val_bound _ Hr _ _ Hu). split; [|lia]. split; [lia|reflexivity].
Qed.

Lemma numeral2_len_bound (v w : Z) :
  0 < w -> 0 <= v < 2 ^ w -> slen (numeral 2 v) <= w.
Proof.
  intros Hw Hv.
  destruct (numeral_length 2 v ltac:(lia) ltac:(lia)) as (n & Hn & Hn1 & Hhi & Hlo).
  rewrite Hn. destruct Hlo as [->|Hlo]; [|].
  - (* v = 0: numeral is one digit *)
    vm_compute in Hn. lia.
  - destruct (Z.le_gt_cases n w) as [|Hgt]; [assumption|].
    assert (2 ^ w <= 2 ^ (n - 1)) by (apply Z.pow_le_mono_r; lia). lia.
Qed.

Theorem signed_reading (v w : Z) :
  0 < w -> 0 <= v < 2 ^ w ->
  bits_to_sint (convert_bin v w) = Some (IntOk (if v <? 2 ^ (w - 1) then v else v - 2 ^ w)).
Proof.
  intros Hw Hv.
  assert (Hlen : slen (convert_bin v w) = w).
  { rewrite convert_bin_length by lia. pose proof (numeral2_len_bound v w Hw Hv). lia. }
  assert (Hne : convert_bin v w <> EmptyString).
  { intros E. rewrite E in Hlen. cbn in Hlen. lia. }
  pose proof (convert_bin_bits v w ltac:(lia)) as Hbits.
  pose proof (convert_bin_value v w ltac:(lia)) as Hval.
  rewrite (bits_to_sint_spec _ v Hne Hbits Hval).
  destruct (msb_split _ v Hne Hbits Hval) as (_ & Hmsb & Hcases).
  rewrite Hlen in *. f_equal. f_equal.
  destruct (Z.ltb_spec v (2 ^ (w - 1))) as [Hlt|Hge].
  - destruct Hcases as [H0|H1]; [rewrite H0; lia|]. apply Hmsb in H1. lia.
  - destruct Hcases as [H0|H1]; [|rewrite H1; lia].
    assert (msb_of (convert_bin v w) = 1) by (apply Hmsb; lia). lia.
Qed.

(** * mod, pow, bitwise: Z's own operations carry the specification *)
Lemma mod_floor (a b : Z) : b <> 0 -> a = b * (a / b) + a mod b /\ (0 < b -> 0 <= a mod b < b) /\ (b < 0 -> b < a mod b <= 0).
Proof.
  intros Hb. split; [apply Z.div_mod; exact Hb|]. split; intros H.
  - apply Z.mod_pos_bound; lia.
  - apply Z.mod_neg_bound; lia.
Qed.

Lemma pow_nonneg_spec (a : Z) (n : nat) : z_pow a (Z.of_nat n) = fold_right Z.mul 1 (repeat a n).
Proof.
  unfold z_pow. induction n as [|n IH]; [reflexivity|].
  rewrite Nat2Z.inj_succ, Z.pow_succ_r by lia. cbn [repeat fold_right]. rewrite IH. reflexivity.
Qed.
