(** PathProofs.v — the command-line pipeline (passes, then Wal.eval which runs the passes again)
    and the API pipeline (Wal.eval) do the same thing on a form on which the second application
    of expand and optimize is the identity; resolve's second application is the identity by
    ResolveProofs (C16). *)
From WalModel Require Import Api.
From WalModel.proofs Require Import ResolveProofs.
Local Open Scope Z_scope.

(** one form through main() of wal/wal.py *)
Definition cli_form (e : val) : M val :=
  e1 <- ex0 e (Some global_id) ;;
  (if optimize_modelled e1 then ret tt else unm "optimize: float corner") ;;;
  st <- get_st ;;
  match resolve (global_names st) (optimize e1) with
  | RsOk r => wal_eval r []
  | RsErr _ => unm "main: pass error path"
  end.

Lemma cli_run_forms_is forms : cli_run_forms forms = (mapM cli_form forms ;;; ret tt).
Proof. reflexivity. Qed.

(** Wal.eval without keyword arguments is the pass pipeline followed by evaluation *)
Lemma wal_eval_nokw e st : ast_truthy e = true ->
  wal_eval e [] st = run_form all_passes e st.
Proof.
  intros Ht. unfold wal_eval, wal_eval_with. cbn [mapM]. unfold bind at 1. unfold ret at 1. cbv beta iota.
  rewrite Ht. unfold bind at 1. destruct (run_form all_passes e st) as [r st'| | |]; reflexivity.
Qed.

Lemma run_form_all e st :
  run_form all_passes e st =
  match ex0 e (Some global_id) st with
  | Ok e1 st1 =>
      if optimize_modelled e1 then
        match resolve (global_names st1) (optimize e1) with
        | RsOk r => ev0 r st1
        | RsErr er => Er er st1
        end
      else Unm "optimize: float corner"
  | Er er s => Er er s | Unm u => Unm u | Fuel => Fuel
  end.
Proof.
  unfold run_form, all_passes. cbv beta iota. unfold bind at 1.
  destruct (ex0 e (Some global_id) st) as [e1 st1| | |]; try reflexivity.
  cbn [andb]. destruct (optimize_modelled e1); cbn [negb]; [|reflexivity].
  unfold bind, ret, get_st. destruct (resolve (global_names st1) (optimize e1)); reflexivity.
Qed.

(** the two pipelines agree on a form whose processed version is a fixed point of expand and
    optimize (resolve's fixed point is a theorem) *)
Theorem cli_form_agrees_with_api e st e1 st1 r :
  ast_truthy e = true ->
  ex0 e (Some global_id) st = Ok e1 st1 -> optimize_modelled e1 = true ->
  resolve (global_names st1) (optimize e1) = RsOk r ->
  ast_truthy r = true ->
  ex0 r (Some global_id) st1 = Ok r st1 -> optimize_modelled r = true -> optimize r = r ->
  val_depth r = val_depth (optimize e1) ->
  cli_form e st = wal_eval e [] st.
Proof.
  intros Ht Hex Hom Hres Htr Hex2 Hom2 Hopt2 Hd.
  rewrite (wal_eval_nokw _ _ Ht), run_form_all, Hex, Hom, Hres.
  unfold cli_form. unfold bind at 1. rewrite Hex, Hom. unfold bind at 1. unfold ret at 1. cbv beta iota.
  unfold bind at 1, get_st at 1. rewrite Hres, (wal_eval_nokw _ _ Htr), run_form_all, Hex2, Hom2, Hopt2.
  rewrite (resolve_idempotent _ _ _ Hres Hd). reflexivity.
Qed.

(** a falsy form is skipped by both *)
Theorem falsy_form_skipped e st : ast_truthy e = false -> wal_eval e [] st = Ok VNone st.
Proof.
  intros Ht. unfold wal_eval, wal_eval_with. cbn [mapM]. unfold bind at 1. unfold ret at 1. cbv beta iota.
  rewrite Ht. reflexivity.
Qed.

(** Wal.run_file / the .wo path: the forms one after the other through Wal.eval *)
Theorem run_file_is_sequence e rest :
  api_run_file (e :: rest) = fold_left (fun acc x => acc ;;; wal_eval x []) rest (ret VNone ;;; wal_eval e []).
Proof. reflexivity. Qed.

(** non-vacuity: (print (+ 1 2)) on a fresh interpreter meets every hypothesis *)
Definition demo_form : val := WL [VOp OPrint; WL [VOp OAdd; VInt 1; VInt 2]].
Example cli_agrees_demo : cli_form demo_form empty_state = wal_eval demo_form [] empty_state.
Proof.
  apply (cli_form_agrees_with_api demo_form empty_state (WL [VOp OPrint; WL [VOp OAdd; VInt 1; VInt 2]]) empty_state
                                  (WL [VOp OPrint; VInt 3])); vm_compute; reflexivity.
Qed.

(** with ExpandProofs: for a processed form without macro calls the expand fixed point is a theorem; what remains
    a premise is that the second expansion completes (fuel) and that optimize has nothing left to fold *)
From WalModel.proofs Require Import ExpandProofs.
Theorem cli_form_agrees_macro_free e st e1 st1 r e2 st2 :
  ast_truthy e = true ->
  ex0 e (Some global_id) st = Ok e1 st1 -> optimize_modelled e1 = true ->
  resolve (global_names st1) (optimize e1) = RsOk r ->
  ast_truthy r = true ->
  mfree st1 r = true -> ex0 r (Some global_id) st1 = Ok e2 st2 ->
  optimize_modelled r = true -> optimize r = r -> val_depth r = val_depth (optimize e1) ->
  cli_form e st = wal_eval e [] st.
Proof.
  intros Ht Hex Hom Hres Htr Hmf Hex2 Hom2 Hopt2 Hd.
  destruct (expand_macro_free LF FUEL r (Some global_id) st1 e2 st2 Hmf Hex2) as [-> ->].
  apply (cli_form_agrees_with_api e st e1 st1 r); assumption.
Qed.
