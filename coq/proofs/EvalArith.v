(** EvalArith.v — the arithmetic operators of the evaluator compute the
    mathematical functions of ArithProofs on whatever their operands
    evaluate to (literals, variables, signals): statements are over an
    arbitrary sub-evaluator [ev]. (C09) *)
From WalModel Require Import Eval.
From WalModel.proofs Require Import ArithProofs.
Local Open Scope Z_scope.

Section WithEv.
  Variable ev : val -> M val.

  Lemma bind_ok {A B} (m : M A) (k : A -> M B) st a st' :
    m st = Ok a st' -> bind m k st = k a st'.
  Proof. intros H. unfold bind. rewrite H. reflexivity. Qed.

  (** eval_args yields as many values as there are operands *)
  Lemma mapM_length {A B} (f : A -> M B) : forall l st vs st',
    mapM f l st = Ok vs st' -> List.length vs = List.length l.
  Proof.
    induction l as [|x l IH]; intros st vs st' H; cbn [mapM] in H.
    - unfold ret in H. injection H as <- _. reflexivity.
    - unfold bind in H. destruct (f x st) as [y st1| | |] eqn:E1; try discriminate.
      destruct (mapM f l st1) as [ys st2| | |] eqn:E2; try discriminate.
      unfold ret in H. injection H as <- _. cbn [List.length]. f_equal. eapply IH; eassumption.
  Qed.

  Lemma zlen_eq {A} (l : list A) (n : nat) : List.length l = n -> zlen l = Z.of_nat n.
  Proof. intros <-. reflexivity. Qed.

  Theorem op_slice_bit (args : list val) (x i : Z) st st' :
    eval_args ev args st = Ok [VInt x; VInt i] st' -> 0 <= i ->
    op_slice ev args st = Ok (VInt (Z.b2z (Z.testbit x i))) st'.
  Proof.
    intros H Hi. pose proof (mapM_length _ _ _ _ _ H) as Hl. cbn [List.length] in Hl.
    unfold op_slice. rewrite (zlen_eq args 2%nat) by congruence.
    cbn [Z.of_nat Pos.of_succ_nat Pos.succ Z.ltb Z.compare Pos.compare Pos.compare_cont andb assert].
    unfold bind at 1. cbn [ret]. rewrite (bind_ok _ _ _ _ _ H).
    cbn [int_of]. rewrite slice1_spec by exact Hi. reflexivity.
  Qed.

  Theorem op_slice_range (args : list val) (x h l : Z) st st' :
    eval_args ev args st = Ok [VInt x; VInt h; VInt l] st' -> 0 <= l -> l <= h ->
    op_slice ev args st = Ok (VInt ((x / 2 ^ l) mod 2 ^ (h - l + 1))) st'.
  Proof.
    intros H Hl0 Hlh. pose proof (mapM_length _ _ _ _ _ H) as Hl. cbn [List.length] in Hl.
    unfold op_slice. rewrite (zlen_eq args 3%nat) by congruence.
    cbn [Z.of_nat Pos.of_succ_nat Pos.succ Z.ltb Z.compare Pos.compare Pos.compare_cont andb assert].
    unfold bind at 1. cbn [ret]. rewrite (bind_ok _ _ _ _ _ H).
    cbn [int_of]. rewrite slice2_spec by assumption. reflexivity.
  Qed.

  Definition ints (zs : list Z) : list val := map VInt zs.

  Lemma forallb_is_num_ints zs : forallb is_num_val (ints zs) = true.
  Proof. induction zs; cbn; auto. Qed.
  Lemma forallb_is_int_ints zs : forallb is_int_val (ints zs) = true.
  Proof. induction zs; cbn; auto. Qed.
  Lemma existsb_list_ints zs : existsb is_list_val (ints zs) = false.
  Proof. induction zs; cbn; auto. Qed.
  Lemma existsb_str_ints zs : existsb is_str_val (ints zs) = false.
  Proof. induction zs; cbn; auto. Qed.
  Lemma as_num_ints zs : map_opt as_num (ints zs) = Some (map NInt zs).
  Proof. induction zs as [|z zs IH]; cbn [ints map map_opt as_num]; [reflexivity|].
         fold (ints zs). rewrite IH. reflexivity. Qed.
  Lemma int_of_ints zs : map_opt int_of (ints zs) = Some zs.
  Proof. induction zs as [|z zs IH]; cbn [ints map map_opt int_of]; [reflexivity|].
         fold (ints zs). rewrite IH. reflexivity. Qed.
  Lemma count_floats_ints zs : count_floats (ints zs) = 0%nat.
  Proof. induction zs; cbn; auto. Qed.
  Lemma fold_add_ints zs acc :
    fold_num num_add (NInt acc) (map NInt zs) = Some (NInt (fold_left Z.add zs acc)).
  Proof. revert acc. induction zs as [|z zs IH]; intros acc; cbn [map fold_num fold_left num_add]; [reflexivity|apply IH]. Qed.
  Lemma fold_sub_ints zs acc :
    fold_num num_sub (NInt acc) (map NInt zs) = Some (NInt (fold_left Z.sub zs acc)).
  Proof. revert acc. induction zs as [|z zs IH]; intros acc; cbn [map fold_num fold_left num_sub]; [reflexivity|apply IH]. Qed.
  Lemma fold_mul_ints zs acc :
    fold_num num_mul (NInt acc) (map NInt zs) = Some (NInt (fold_left Z.mul zs acc)).
  Proof. revert acc. induction zs as [|z zs IH]; intros acc; cbn [map fold_num fold_left num_mul]; [reflexivity|apply IH]. Qed.

  (** n-ary + on integers is the mathematical sum, any arity, any width *)
  Theorem op_add_ints (args : list val) (zs : list Z) st st' :
    eval_args ev args st = Ok (ints zs) st' ->
    op_add ev args st = Ok (VInt (fold_left Z.add zs 0)) st'.
  Proof.
    intros H. unfold op_add. rewrite (bind_ok _ _ _ _ _ H).
    rewrite existsb_list_ints, existsb_str_ints. unfold py_sum.
    rewrite as_num_ints, count_floats_ints. cbn [Nat.leb].
    rewrite fold_add_ints. reflexivity.
  Qed.

  Theorem op_sub_ints (args : list val) (z : Z) (zs : list Z) st st' :
    eval_args ev args st = Ok (ints (z :: zs)) st' ->
    op_sub ev args st =
      Ok (VInt (match zs with [] => - z | _ => fold_left Z.sub zs z end)) st'.
  Proof.
    intros H. unfold op_sub. rewrite (bind_ok _ _ _ _ _ H).
    rewrite forallb_is_num_ints. cbn [assert]. unfold bind at 1. cbn [ret].
    rewrite as_num_ints. cbn [map].
    destruct zs as [|z2 zs]; [reflexivity|].
    cbn [map]. change (NInt z2 :: map NInt zs) with (map NInt (z2 :: zs)).
    rewrite fold_sub_ints. reflexivity.
  Qed.

  Theorem op_mul_ints (args : list val) (z z2 : Z) (zs : list Z) st st' :
    eval_args ev args st = Ok (ints (z :: z2 :: zs)) st' ->
    op_mul ev args st = Ok (VInt (fold_left Z.mul (z2 :: zs) z)) st'.
  Proof.
    intros H. unfold op_mul. rewrite (bind_ok _ _ _ _ _ H).
    rewrite forallb_is_num_ints. cbn [assert]. unfold bind at 1. cbn [ret].
    assert (Hz : (1 <? zlen (ints (z :: z2 :: zs))) = true).
    { unfold zlen. cbn [ints map List.length]. lia. }
    rewrite Hz. cbn [assert]. unfold bind at 1. cbn [ret].
    rewrite as_num_ints. cbn [map].
    change (NInt z2 :: map NInt zs) with (map NInt (z2 :: zs)).
    rewrite fold_mul_ints. reflexivity.
  Qed.

  Theorem op_mod_ints (args : list val) (a b : Z) st st' :
    List.length args = 2%nat ->
    eval_args ev args st = Ok [VInt a; VInt b] st' -> b <> 0 ->
    op_mod ev args st = Ok (VInt (a mod b)) st'.
  Proof.
    intros Hl H Hb. unfold op_mod. rewrite Hl. cbn [Nat.eqb assert]. unfold bind at 1. cbn [ret].
    rewrite (bind_ok _ _ _ _ _ H). cbn [forallb is_num_val andb assert]. unfold bind at 1. cbn [ret int_of].
    destruct (Z.eqb_spec b 0); [contradiction|reflexivity].
  Qed.

  Theorem op_exp_ints (args : list val) (a b : Z) st st' :
    eval_args ev args st = Ok [VInt a; VInt b] st' -> 0 <= b ->
    op_exp ev args st = Ok (VInt (a ^ b)) st'.
  Proof.
    intros H Hb. unfold op_exp. rewrite (bind_ok _ _ _ _ _ H).
    cbn [forallb is_num_val andb assert List.length Nat.eqb]. unfold bind at 1. cbn [ret].
    unfold bind at 1. cbn [ret int_of].
    destruct (Z.leb_spec 0 b); [reflexivity|lia].
  Qed.

  Theorem op_cmp_ints (test : comparison -> bool) (args : list val) (a b : Z) st st' :
    List.length args = 2%nat ->
    eval_args ev args st = Ok [VInt a; VInt b] st' ->
    op_cmp ev test args st = Ok (VBool (test (a ?= b))) st'.
  Proof.
    intros Hl H. unfold op_cmp. rewrite Hl. cbn [Nat.eqb assert]. unfold bind at 1. cbn [ret].
    rewrite (bind_ok _ _ _ _ _ H). cbn [forallb is_num_val andb assert]. unfold bind at 1. cbn [ret].
    reflexivity.
  Qed.

  Theorem op_bitwise_ints (f : Z -> Z -> Z) (args : list val) (z z2 : Z) (zs : list Z) st st' :
    eval_args ev args st = Ok (ints (z :: z2 :: zs)) st' ->
    op_bitwise ev f args st = Ok (VInt (fold_left f (z2 :: zs) z)) st'.
  Proof.
    intros H. unfold op_bitwise. rewrite (bind_ok _ _ _ _ _ H).
    rewrite forallb_is_int_ints. cbn [assert]. unfold bind at 1. cbn [ret].
    cbn [ints map int_of]. change (VInt z2 :: map VInt zs) with (ints (z2 :: zs)).
    rewrite int_of_ints. reflexivity.
  Qed.

  Theorem op_convert_bin_spec (args : list val) (v w : Z) st st' :
    List.length args = 2%nat ->
    eval_args ev args st = Ok [VInt v; VInt w] st' -> 0 <= v -> 0 <= w ->
    exists s, op_convert_bin ev args st = Ok (VStr s) st' /\
              unsigned_bits s = Some v /\ slen s = Z.max w (slen (numeral 2 v)).
  Proof.
    intros Hl H Hv Hw. exists (convert_bin v w). split.
    - unfold op_convert_bin. rewrite Hl. cbn [Nat.eqb orb assert]. unfold bind at 1. cbn [ret].
      rewrite (bind_ok _ _ _ _ _ H). cbn [int_of].
      destruct (Z.ltb_spec w 0); [lia|reflexivity].
    - split; [apply convert_bin_value|apply convert_bin_length]; assumption.
  Qed.
End WithEv.
