(** Balanced.v — T-bal: every successfully completed evaluation leaves the
    interpreter in the context it started in: the current environment is the
    one it was entered with and no saved position is left pending (C17; used
    by C03 C04 C05 C06).  Proved for the whole evaluator (every operator of
    Eval.v, closures, macros, the expand pass) by induction on the fuel, from
    one lemma per monadic combinator and one per operator. *)
From WalModel Require Import Eval.
Local Open Scope Z_scope.

(** the part of the context that a completed evaluation must give back: the current
    environment and the stack of saved positions; and what it may never do to the heap of
    environments: frames are only added, and the parent of an existing frame never changes *)
Definition parents (st : state) : list (option nat) := map f_parent (st_frames st).

Definition R (st st' : state) : Prop :=
  st_cur st' = st_cur st /\ c_stack (st_cont st') = c_stack (st_cont st) /\
  exists extra, parents st' = parents st +++ extra.

Lemma R_refl st : R st st.
Proof. split; [reflexivity|]. split; [reflexivity|]. exists []. symmetry. apply app_nil_r. Qed.
Lemma R_trans a b c : R a b -> R b c -> R a c.
Proof.
  intros [H1 [H2 [e1 H3]]] [H4 [H5 [e2 H6]]]. split; [congruence|]. split; [congruence|].
  exists (e1 +++ e2). rewrite H6, H3, app_assoc. reflexivity.
Qed.

Lemma parents_upd_cur s x : parents (upd_cur s x) = parents s. Proof. reflexivity. Qed.
Lemma parents_upd_cont s x : parents (upd_cont s x) = parents s. Proof. reflexivity. Qed.

(** closes a goal [R st st'] (or its heap part) from hypotheses about the intermediate states *)
Ltac heap_chain :=
  repeat match goal with H : exists _, parents _ = _ |- _ => let e := fresh "e" in destruct H as [e H] end;
  rewrite ?parents_upd_cur, ?parents_upd_cont in *;
  repeat match goal with H : parents ?x = _ |- context [parents ?x] => rewrite H; clear H end;
  eexists; rewrite <- ?app_assoc; reflexivity.

Definition good {A} (m : M A) : Prop := forall st a st', m st = Ok a st' -> R st st'.

Lemma good_ret {A} (a : A) : good (ret a).
Proof. intros st x st' H. injection H as _ <-. apply R_refl. Qed.
Lemma good_fail {A} e : good (@fail A e).
Proof. intros st x st' H. discriminate. Qed.
Lemma good_unm {A} w : good (@unm A w).
Proof. intros st x st' H. discriminate. Qed.
Lemma good_fuel {A} : good (fun _ : state => @Fuel A).
Proof. intros st x st' H. discriminate. Qed.
Lemma good_bind {A B} (m : M A) (k : A -> M B) : good m -> (forall a, good (k a)) -> good (bind m k).
Proof.
  intros Hm Hk st b st' H. unfold bind in H. destruct (m st) as [a st1| | |] eqn:E; try discriminate.
  eapply R_trans; [eapply Hm; exact E|eapply Hk; exact H].
Qed.
Lemma good_get_st : good get_st.
Proof. intros st x st' H. injection H as _ <-. apply R_refl. Qed.
Lemma good_modify (f : state -> state) : (forall s, R s (f s)) -> good (modify f).
Proof. intros Hf st x st' H. injection H as _ <-. apply Hf. Qed.
Lemma good_assert b : good (assert b).
Proof. unfold assert. destruct b; [apply good_ret|apply good_fail]. Qed.
Lemma good_require b e : good (require b e).
Proof. unfold require. destruct b; [apply good_ret|apply good_fail]. Qed.
Lemma good_of_opt {A} (o : option A) e : good (of_opt o e).
Proof. unfold of_opt. destruct o; [apply good_ret|apply good_fail]. Qed.
Lemma good_mapM {A B} (f : A -> M B) l : (forall x, good (f x)) -> good (mapM f l).
Proof.
  intros Hf. induction l as [|x l IH]; cbn [mapM]; [apply good_ret|].
  apply good_bind; [apply Hf|intros y]. apply good_bind; [exact IH|intros ys; apply good_ret].
Qed.

(** state updates that do not touch the current environment, the saved positions or the frames *)
Ltac R_triv := split; [reflexivity|]; split; [reflexivity|]; exists []; symmetry; apply app_nil_r.
Lemma R_upd_arrays s x : R s (upd_arrays s x). Proof. R_triv. Qed.
Lemma R_upd_scope s x : R s (upd_scope s x). Proof. R_triv. Qed.
Lemma R_upd_group s x : R s (upd_group s x). Proof. R_triv. Qed.
Lemma R_upd_aliases s x : R s (upd_aliases s x). Proof. R_triv. Qed.
Lemma R_upd_gensym s x : R s (upd_gensym s x). Proof. R_triv. Qed.
Lemma R_upd_out s x : R s (upd_out s x). Proof. R_triv. Qed.
Lemma R_upd_cont s c : c_stack c = c_stack (st_cont s) -> R s (upd_cont s c).
Proof. intros H. split; [reflexivity|]. split; [exact H|]. exists []. symmetry. apply app_nil_r. Qed.
#[global] Hint Resolve R_refl R_upd_arrays R_upd_scope R_upd_group R_upd_aliases R_upd_gensym R_upd_out : goodb.

Lemma good_put_frame_fun {A} (a : A) (g : state -> state) :
  (forall s, R s (g s)) -> good (fun st => Ok a (g st)).
Proof. intros Hg st x st' H. injection H as _ <-. apply Hg. Qed.

Lemma map_replace_frame : forall l id f f2,
  nth_error l id = Some f -> f_parent f2 = f_parent f ->
  map f_parent (replace_frame l id f2) = map f_parent l.
Proof.
  induction l as [|x l IH]; intros id f f2 H Hp; [reflexivity|]. destruct id.
  - cbn [nth_error] in H. injection H as ->. cbn [replace_frame map]. rewrite Hp. reflexivity.
  - cbn [replace_frame map nth_error] in *. f_equal. eapply IH; eassumption.
Qed.

(** replacing a frame by one with the same parent *)
Lemma R_put_frame s id f f2 : get_frame s id = Some f -> f_parent f2 = f_parent f -> R s (put_frame s id f2).
Proof.
  intros H Hp. split; [reflexivity|]. split; [reflexivity|]. exists [].
  unfold parents, put_frame. cbn [upd_frames st_frames]. rewrite (map_replace_frame _ _ _ _ H Hp). symmetry. apply app_nil_r.
Qed.

Lemma good_new_frame p : good (new_frame p).
Proof.
  intros st x st' H. unfold new_frame in H. injection H as _ <-. split; [reflexivity|]. split; [reflexivity|].
  exists [p]. unfold parents. cbn [upd_frames st_frames]. rewrite map_app. reflexivity.
Qed.
Lemma good_env_define id n v : good (env_define id n v).
Proof.
  intros st x st' H. unfold env_define in H. destruct (get_frame st id) eqn:E; [|discriminate].
  destruct (amem n (f_binds f)); [discriminate|]. injection H as _ <-. eapply R_put_frame; [exact E|reflexivity].
Qed.
Lemma good_env_undefine id n : good (env_undefine id n).
Proof.
  intros st x st' H. unfold env_undefine in H. destruct (get_frame st id) eqn:E; [|discriminate].
  destruct (amem n (f_binds f)); [|discriminate]. injection H as _ <-. eapply R_put_frame; [exact E|reflexivity].
Qed.
Lemma good_env_read id n : good (env_read id n).
Proof.
  intros st x st' H. unfold env_read in H.
  destruct (lookup_frame st id n); [|discriminate]. destruct (get_frame st n0); [|discriminate].
  destruct (alookup n (f_binds f)); [|discriminate]. injection H as _ <-. apply R_refl.
Qed.
Lemma good_frame_store fid n v : good (frame_store fid n v).
Proof.
  intros st x st' H. unfold frame_store in H. destruct (get_frame st fid) eqn:E; [|discriminate].
  injection H as _ <-. eapply R_put_frame; [exact E|reflexivity].
Qed.
Lemma good_env_write id n v : good (env_write id n v).
Proof.
  intros st x st' H. unfold env_write in H. destruct (lookup_frame st id n); [|discriminate].
  eapply good_frame_store. exact H.
Qed.
Lemma good_read_global n : good (read_global n). Proof. apply good_env_read. Qed.
Lemma good_write_global n v : good (write_global n v). Proof. apply good_env_write. Qed.
Lemma good_new_array d : good (new_array d).
Proof. intros st x st' H. unfold new_array in H. injection H as _ <-. apply R_upd_arrays. Qed.
Lemma good_get_array r : good (get_array r).
Proof.
  intros st x st' H. unfold get_array in H. destruct (nth_error (st_arrays st) r); [|discriminate].
  injection H as _ <-. apply R_refl.
Qed.
Lemma good_put_array r d : good (put_array r d).
Proof. unfold put_array. apply good_modify. intros s. apply R_upd_arrays. Qed.
Lemma good_emit s : good (emit s).
Proof. unfold emit. apply good_modify. intros x. apply R_upd_out. Qed.

#[global] Hint Resolve good_ret good_fail good_unm good_fuel good_get_st good_assert good_require good_of_opt
  good_new_frame good_env_define good_env_undefine good_env_read good_frame_store good_env_write good_read_global
  good_write_global good_new_array good_get_array good_put_array good_emit : goodb.

(** one step of the structural traversal of a monadic definition *)
Ltac good_step :=
  lazymatch goal with
  | |- good (bind _ _) => apply good_bind; [|intros ?]
  | |- good (mapM _ _) => apply good_mapM; intros ?
  | |- good (modify _) => apply good_modify; intros ?; auto with goodb
  | |- good (match ?x with _ => _ end) => destruct x
  | |- good (if ?b then _ else _) => destruct b
  | |- good (let '(_, _) := ?x in _) => destruct x
  | |- good _ => solve [auto with goodb]
  end.
Ltac solve_good := repeat good_step.

Section WithEv.
  Variable loopfuel : nat.
  Variable ev : val -> M val.
  Variable ex : val -> option nat -> M val.
  Hypothesis Hev : forall e, good (ev e).
  Hypothesis Hex : forall e p, good (ex e p).
  Hint Resolve Hev Hex : goodb.

  Lemma good_eval_args args : good (eval_args ev args).
  Proof. unfold eval_args. apply good_mapM. exact Hev. Qed.
  Hint Resolve good_eval_args : goodb.

  Lemma good_last_or l : good (last_or_index_error l).
  Proof. unfold last_or_index_error. solve_good. Qed.
  Lemma good_arg0 l : good (arg0 l).
  Proof. unfold arg0. solve_good. Qed.
  Hint Resolve good_last_or good_arg0 : goodb.

  Lemma good_printable v : good (printable v).
  Proof.
    intros st x st' H. unfold printable in H.
    match type of H with (match ?m with _ => _ end) = _ => destruct m end; [|discriminate].
    injection H as _ <-. apply R_refl.
  Qed.
  Hint Resolve good_printable : goodb.

  Lemma good_contains_m n : good (contains_m n).
  Proof. unfold contains_m. solve_good. Qed.
  Hint Resolve good_contains_m : goodb.

  Lemma good_replace_trace t : good (replace_trace t).
  Proof. unfold replace_trace. apply good_modify. intros s. apply R_upd_cont. reflexivity. Qed.
  Hint Resolve good_replace_trace : goodb.

  Lemma good_virtual_value tid n : good (virtual_value ev tid n).
  Proof. unfold virtual_value. solve_good. Qed.
  Hint Resolve good_virtual_value : goodb.

  Lemma good_signal_value_m n sc : good (signal_value_m ev n sc).
  Proof. unfold signal_value_m. solve_good. Qed.
  Hint Resolve good_signal_value_m : goodb.

  Lemma good_eval_symbol n s : good (eval_symbol ev n s).
  Proof. unfold eval_symbol. solve_good. Qed.
  Hint Resolve good_eval_symbol : goodb.

  Lemma bind_ok_inv {A B} (m : M A) (k : A -> M B) st b st' :
    bind m k st = Ok b st' -> exists a st1, m st = Ok a st1 /\ k a st1 = Ok b st'.
  Proof. unfold bind. destruct (m st) as [a st1| | |] eqn:E; try discriminate. intros H. eauto. Qed.

  Ltac binv H :=
    let a := fresh "a" in let s := fresh "s" in let E := fresh "E" in
    apply bind_ok_inv in H; destruct H as (a & s & E & H).

  (** parameter binding of a closure call *)
  Lemma good_bind_params fid : forall ps args,
    good ((fix go (ps args : list val) : M unit :=
             match ps, args with
             | p :: pr, a :: ar =>
                 v <- ev a ;;
                 match p with
                 | VSym pn _ => env_define fid pn v ;;; go pr ar
                 | _ => fail EOther
                 end
             | _, _ => ret tt
             end) ps args).
  Proof.
    induction ps as [|p ps IH]; intros args; [destruct args; apply good_ret|].
    destruct args as [|a args]; [apply good_ret|].
    apply good_bind; [apply Hev|intros v]. destruct p; try apply good_fail.
    apply good_bind; [apply good_env_define|intros _; apply IH].
  Qed.

  Lemma good_eval_closure clos args : good (eval_closure ev clos args).
  Proof.
    unfold eval_closure. destruct clos; try apply good_fail.
    intros st a st' H.
    binv H. injection E as <- <-.
    binv H. pose proof (good_new_frame _ _ _ _ E) as R1.
    binv H.
    assert (R2 : R s s0).
    { revert E0.
      match goal with |- (match ?p with _ => _ end) _ = _ -> _ => destruct p end; try (intros E0; discriminate).
      - apply good_bind; [apply good_eval_args|intros; apply good_env_define].
      - match goal with |- (if ?w then _ else _) _ = _ -> _ => destruct w | |- (match ?w with _ => _ end) _ = _ -> _ => destruct w end;
          try (intros E0; discriminate).
        apply good_bind; [apply good_assert|intros; apply good_bind_params]. }
    binv H. injection E1 as _ <-.
    binv H. pose proof (Hev _ _ _ _ E1) as R3.
    binv H. injection E2 as _ <-. injection H as _ <-.
    destruct R1 as [C1 [S1 F1]], R2 as [C2 [S2 F2]], R3 as [C3 [S3 F3]]. split; [reflexivity|]. split.
    - cbn [upd_cur st_cont] in *. congruence.
    - heap_chain.
  Qed.
  Hint Resolve good_eval_closure : goodb.

  Lemma good_op_not args : good (op_not ev args). Proof. unfold op_not. solve_good. Qed.
  Lemma good_op_eq neg args : good (op_eq ev neg args). Proof. unfold op_eq. solve_good. Qed.
  Lemma good_op_cmp t args : good (op_cmp ev t args). Proof. unfold op_cmp. solve_good. Qed.
  Lemma good_and_loop args : good (and_loop ev args).
  Proof. induction args as [|a r IH]; cbn [and_loop]; solve_good. Qed.
  Lemma good_or_loop args : good (or_loop ev args).
  Proof. induction args as [|a r IH]; cbn [or_loop]; solve_good. Qed.
  Hint Resolve good_and_loop good_or_loop : goodb.
  Lemma good_op_and args : good (op_and ev args). Proof. unfold op_and. solve_good. Qed.
  Lemma good_op_or args : good (op_or ev args). Proof. unfold op_or. solve_good. Qed.

  Lemma good_let_binds fid : forall ps,
    good ((fix go (ps : list val) : M unit :=
           match ps with
           | [] => ret tt
           | p :: r =>
               match p with
               | VList true items =>
                   match items with
                   | [] => fail EOther
                   | k :: _ =>
                       match k with
                       | VSym kn _ =>
                           assert (Nat.eqb (List.length items) 2) ;;;
                           match items with
                           | [_; e] => v <- ev e ;; env_define fid kn v ;;; go r
                           | _ => fail EEval
                           end
                       | _ => fail EEval
                       end
                   end
               | _ => fail EEval
               end
           end) ps).
  Proof.
    induction ps as [|p ps IH]; [apply good_ret|].
    destruct p; try apply good_fail. destruct w; try apply good_fail.
    destruct l as [|k items]; [apply good_fail|]. destruct k; try apply good_fail.
    apply good_bind; [apply good_assert|intros _].
    destruct items as [|e items]; [apply good_fail|]. destruct items; [|apply good_fail].
    apply good_bind; [apply Hev|intros v]. apply good_bind; [apply good_env_define|intros _; exact IH].
  Qed.

  Lemma good_op_let args : good (op_let ev args).
  Proof.
    unfold op_let. intros st a st' H.
    binv H. pose proof (good_arg0 _ _ _ _ E) as R0.
    destruct a0; try discriminate. destruct w; try discriminate.
    binv H. injection E0 as <- <-.
    binv H. pose proof (good_new_frame _ _ _ _ E0) as R1.
    binv H. injection E1 as _ <-.
    binv H. pose proof (good_let_binds _ _ _ _ _ E1) as R2.
    binv H. pose proof (good_eval_args _ _ _ _ E2) as R3.
    binv H. pose proof (good_last_or _ _ _ _ E3) as R4.
    binv H. injection E4 as _ <-. injection H as _ <-.
    destruct R0 as [C0 [S0 F0]], R1 as [C1 [S1 F1]], R2 as [C2 [S2 F2]], R3 as [C3 [S3 F3]], R4 as [C4 [S4 F4]]. split; [|split].
    - cbn [upd_cur st_cur]. congruence.
    - cbn [upd_cur st_cont] in *. congruence.
    - heap_chain.
  Qed.

  Lemma good_op_set args : good (op_set ev args).
  Proof.
    unfold op_set. apply good_bind; [apply good_assert|intros _].
    generalize VNone. induction args as [|a r IH]; intros last; [apply good_ret|].
    destruct a; try apply good_fail. destruct w; try apply good_fail.
    destruct l as [|k l]; [apply good_fail|]. destruct l as [|e l]; [apply good_fail|]. destruct l; [|apply good_fail].
    destruct k; try apply good_fail.
    apply good_bind; [apply Hev|intros v]. apply good_bind; [apply good_get_st|intros st0].
    apply good_bind; [|intros _; apply IH].
    solve_good.
  Qed.

  Lemma good_op_define args : good (op_define ev args). Proof. unfold op_define. solve_good. Qed.
  Lemma good_to_text v : good (to_text v). Proof. unfold to_text. solve_good. Qed.
  Hint Resolve good_to_text : goodb.
  Lemma good_op_print args : good (op_print ev args). Proof. unfold op_print. solve_good. Qed.
  Lemma good_printf_arg_s v : good (printf_arg_s v). Proof. unfold printf_arg_s. solve_good. Qed.
  Hint Resolve good_printf_arg_s : goodb.
  Lemma good_printf_go n : forall fmt vs, good (printf_go n fmt vs).
  Proof. induction n as [|n IH]; intros fmt vs; cbn [printf_go]; solve_good. Qed.
  Hint Resolve good_printf_go : goodb.
  Lemma good_op_printf args : good (op_printf ev args). Proof. unfold op_printf. solve_good. Qed.
  Lemma good_op_if args : good (op_if ev args). Proof. unfold op_if. solve_good. Qed.
  Lemma good_op_do args : good (op_do ev args). Proof. unfold op_do. solve_good. Qed.
  Lemma good_while_loop n c body : forall last, good (while_loop ev n c body last).
  Proof. induction n as [|n IH]; intros last; cbn [while_loop]; solve_good. Qed.
  Hint Resolve good_while_loop : goodb.
  Lemma good_op_while args : good (op_while loopfuel ev args). Proof. unfold op_while. solve_good. Qed.

  Lemma good_op_case args : good (op_case ev args).
  Proof.
    unfold op_case. apply good_bind; [apply good_assert|intros _].
    destruct args as [|kf clauses]; [apply good_fail|].
    apply good_bind; [apply Hev|intros keyform].
    apply good_bind; [solve_good|intros keys].
    apply good_bind; [apply good_require|intros _].
    generalize (@None (list val)). induction clauses as [|c r IH]; intros default.
    - solve_good.
    - destruct c; try apply good_fail. destruct l as [|k body]; [apply good_fail|].
      destruct (py_eq keyform k) as [[|]|]; [solve_good| |apply good_unm].
      destruct k; try apply IH.
      match goal with |- good (match ?x with _ => _ end) => destruct x end; try apply IH.
      repeat match goal with |- good (match ?x with _ => _ end) => destruct x; try apply IH end.
  Qed.

  Lemma good_op_alias args : good (op_alias ev args). Proof. unfold op_alias. solve_good. Qed.
  Lemma good_op_unalias args : good (op_unalias args).
  Proof.
    unfold op_unalias. apply good_bind; [apply good_assert|intros _].
    induction args as [|a r IH]; [apply good_ret|]. destruct a; try apply good_fail.
    apply good_bind; [apply good_get_st|intros st0]. apply good_bind; [apply good_assert|intros _].
    apply good_bind; [apply good_modify; intros; apply R_upd_aliases|intros _; exact IH].
  Qed.
  Lemma good_op_quote args : good (op_quote args). Proof. unfold op_quote. solve_good. Qed.

  Lemma good_unquote_inner (f : val -> M val) : (forall e, good (f e)) -> forall l acc,
    good ((fix go (l : list val) (acc : list val) : M val :=
             match l with
             | [] => ret (WL acc)
             | x :: r =>
                 match x with
                 | VUnq c => c' <- f c ;; v <- ev c' ;; go r (acc +++ [v])
                 | VUnqS c =>
                     c' <- f c ;; v <- ev c' ;;
                     match v with
                     | VList _ items => go r (acc +++ items)
                     | VStr _ | VArr _ => unm "splice of non-list iterable"
                     | _ => fail EOther
                     end
                 | _ => x' <- f x ;; go r (acc +++ [x'])
                 end
             end) l acc).
  Proof.
    intros Hf. induction l as [|x r IHl]; intros acc; [apply good_ret|].
    destruct x; try (apply good_bind; [apply Hf|intros; apply IHl]).
    - apply good_bind; [apply Hf|intros c']. apply good_bind; [apply Hev|intros v]. apply IHl.
    - apply good_bind; [apply Hf|intros c']. apply good_bind; [apply Hev|intros v].
      destruct v; try apply good_fail; try apply good_unm. apply IHl.
  Qed.

  Lemma good_unquote_go n : forall e, good (unquote_go ev n e).
  Proof.
    induction n as [|n IH]; intros e; cbn [unquote_go]; [apply good_fuel|].
    destruct e; try apply good_ret. destruct w; try apply good_ret.
    assert (Hl : l = [] \/ exists x r, l = x :: r) by (destruct l; eauto).
    destruct Hl as [->|(x0 & l0 & ->)]; [apply good_ret|].
    cbv match.
    exact (good_unquote_inner (unquote_go ev n) IH (x0 :: l0) []).
  Qed.
  Hint Resolve good_unquote_go : goodb.
  Lemma good_op_quasiquote args : good (op_quasiquote loopfuel ev args). Proof. unfold op_quasiquote. solve_good. Qed.

  Lemma good_run_passes e p start : good (run_passes ex e p start). Proof. unfold run_passes. solve_good. Qed.
  Hint Resolve good_run_passes : goodb.
  Lemma good_op_eval args : good (op_eval ev ex args). Proof. unfold op_eval. solve_good. Qed.
  Lemma good_op_fn args : good (op_fn args). Proof. unfold op_fn. solve_good. Qed.
  Lemma good_op_defmacro args : good (op_defmacro ex args). Proof. unfold op_defmacro. solve_good. Qed.
  Lemma good_op_macroexpand args : good (op_macroexpand ev ex args). Proof. unfold op_macroexpand. solve_good. Qed.
  Lemma good_op_gensym args : good (op_gensym args).
  Proof. unfold op_gensym. solve_good. Qed.
  Lemma good_op_get args : good (op_get ev args).
  Proof.
    unfold op_get. apply good_bind; [apply good_assert|intros _]. apply good_bind; [apply good_eval_args|intros vs].
    destruct vs as [|v vs]; [apply good_ret|]. destruct vs; [|destruct v; apply good_ret].
    destruct v; try apply good_ret; try apply Hev.
    intros st a st' H. destruct (ev (VSym s None) st) as [x s1|e0 s1| |] eqn:E; try discriminate.
    - injection H as <- <-. eapply Hev. exact E.
    - destruct e0; discriminate.
  Qed.

  (** relative evaluation: the saved positions pushed here are popped here *)
  Lemma cont_step_stack c n tid c' e : cont_step c n tid = Some (c', e) -> c_stack c' = c_stack c.
  Proof.
    unfold cont_step. destruct tid as [id|].
    - destruct (String.eqb id "").
      + destruct (step_all (c_traces c) n). intros H. injection H as <- _. reflexivity.
      + destruct (alookup id (c_traces c)); [|discriminate]. destruct (trace_step t n).
        intros H. injection H as <- _. reflexivity.
    - destruct (step_all (c_traces c) n). intros H. injection H as <- _. reflexivity.
  Qed.

  Lemma good_step_all_m n : good (step_all_m n).
  Proof.
    unfold step_all_m. intros st a st' H. binv H. injection E as <- <-.
    destruct (cont_step (st_cont st) n None) as [[c ended]|] eqn:Ec; [|discriminate].
    binv H. injection E as _ <-. injection H as _ <-.
    apply R_upd_cont. eapply cont_step_stack. exact Ec.
  Qed.
  Hint Resolve good_step_all_m : goodb.

  Lemma cont_restore_stack c c' top rest :
    cont_restore c = Some c' -> c_stack c = top :: rest -> c_stack c' = rest.
  Proof.
    unfold cont_restore. intros H Hs. rewrite Hs in H.
    destruct (restore_list (c_traces c) top); [|discriminate]. injection H as <-. reflexivity.
  Qed.

  Lemma good_op_reval args : good (op_reval ev args).
  Proof.
    unfold op_reval. apply good_bind; [apply good_assert|intros _].
    destruct args as [|e args]; [apply good_fail|]. destruct args as [|o args]; [apply good_fail|].
    destruct args; [|apply good_fail].
    apply good_bind; [apply good_assert|intros _].
    apply good_bind; [apply Hev|intros ov]. destruct (int_of ov) as [off|]; [|apply good_fail].
    intros st a st' H. binv H. injection E as <- <-.
    destruct (all_in_range (c_traces (st_cont st)) off); [|injection H as _ <-; apply R_refl].
    binv H. injection E as _ <-.
    binv H. pose proof (good_step_all_m _ _ _ _ E) as [C1 [S1 F1]].
    binv H. pose proof (Hev _ _ _ _ E0) as [C2 [S2 F2]].
    binv H. unfold restore_m in E1. binv E1. injection E2 as <- <-.
    match type of E1 with (match ?x with _ => _ end) _ = _ => destruct x as [c|] eqn:Ec end; [|unfold fail in E1; discriminate].
    unfold modify in E1. injection E1 as _ <-. unfold ret in H. injection H as _ <-.
    cbn [upd_cont st_cur st_cont cont_store c_stack] in *. split; [|split].
    - unfold upd_cont. cbn [st_cur]. congruence.
    - unfold upd_cont. cbn [st_cont]. eapply cont_restore_stack; [exact Ec|]. rewrite S2, S1. reflexivity.
    - heap_chain.
  Qed.

  Lemma good_set_scope_cs s : good (set_scope_cs s). Proof. unfold set_scope_cs. solve_good. Qed.
  Hint Resolve good_set_scope_cs : goodb.
  Lemma good_op_in_scope args : good (op_in_scope ev args). Proof. unfold op_in_scope. solve_good. Qed.
  Lemma good_op_all_scopes args : good (op_all_scopes ev args). Proof. unfold op_all_scopes. solve_good. Qed.
  Lemma good_cs_text : good cs_text. Proof. unfold cs_text. solve_good. Qed.
  Hint Resolve good_cs_text : goodb.
  Lemma good_read_named_signal n : good (read_named_signal ev n). Proof. unfold read_named_signal. solve_good. Qed.
  Hint Resolve good_read_named_signal : goodb.
  Lemma good_op_resolve_scope args : good (op_resolve_scope ev args). Proof. unfold op_resolve_scope. solve_good. Qed.
  Lemma good_op_set_scope args : good (op_set_scope args). Proof. unfold op_set_scope. solve_good. Qed.
  Lemma good_op_unset_scope args : good (op_unset_scope args). Proof. unfold op_unset_scope. solve_good. Qed.
  Lemma good_op_groups args : good (op_groups ev args). Proof. unfold op_groups. solve_good. Qed.
  Lemma good_op_in_group args : good (op_in_group ev args).
  Proof.
    unfold op_in_group. solve_good.
    all: try R_triv.
  Qed.
  Hint Resolve good_op_in_group : goodb.
  Lemma good_op_in_groups args : good (op_in_groups ev args).
  Proof.
    unfold op_in_groups. apply good_bind; [apply good_assert|intros _].
    destruct args as [|g body]; [apply good_fail|]. apply good_bind; [apply Hev|intros gs].
    destruct gs; try apply good_fail. generalize VNone.
    induction l as [|x r IH]; intros last; [apply good_ret|].
    apply good_bind; [apply good_op_in_group|intros v; apply IH].
  Qed.
  Lemma good_op_resolve_group args : good (op_resolve_group ev args). Proof. unfold op_resolve_group. solve_good. Qed.
  Lemma good_op_slice args : good (op_slice ev args). Proof. unfold op_slice. solve_good. Qed.
  Lemma good_op_loaded_traces args : good (op_loaded_traces args). Proof. unfold op_loaded_traces. solve_good. Qed.
  Lemma good_op_exit args : good (op_exit ev args). Proof. unfold op_exit. solve_good. Qed.

  Lemma good_py_str v : good (py_str v). Proof. unfold py_str. solve_good. Qed.
  Lemma good_py_sum vs : good (py_sum vs). Proof. unfold py_sum. solve_good. Qed.
  Hint Resolve good_py_str good_py_sum : goodb.
  Lemma good_op_add args : good (op_add ev args). Proof. unfold op_add. solve_good. Qed.
  Lemma good_op_sub args : good (op_sub ev args). Proof. unfold op_sub. solve_good. Qed.
  Lemma good_op_mul args : good (op_mul ev args). Proof. unfold op_mul. solve_good. Qed.
  Lemma good_op_div args : good (op_div ev args). Proof. unfold op_div. solve_good. Qed.
  Lemma good_op_exp args : good (op_exp ev args). Proof. unfold op_exp. solve_good. Qed.
  Lemma good_op_mod args : good (op_mod ev args). Proof. unfold op_mod. solve_good. Qed.
  Lemma good_op_bitwise f args : good (op_bitwise ev f args). Proof. unfold op_bitwise. solve_good. Qed.
  Lemma good_op_is_defined args : good (op_is_defined ev args). Proof. unfold op_is_defined. solve_good. Qed.
  Lemma good_op_all_pred p args : good (op_all_pred ev p args). Proof. unfold op_all_pred. solve_good. Qed.
  Lemma good_op_convert_bin args : good (op_convert_bin ev args). Proof. unfold op_convert_bin. solve_good. Qed.
  Lemma good_of_int_parse p : good (of_int_parse p). Proof. unfold of_int_parse. solve_good. Qed.
  Hint Resolve good_of_int_parse : goodb.
  Lemma good_op_string_to_int args : good (op_string_to_int ev args). Proof. unfold op_string_to_int. solve_good. Qed.
  Lemma good_op_bits_to_sint args : good (op_bits_to_sint ev args). Proof. unfold op_bits_to_sint. solve_good. Qed.
  Lemma good_op_symbol_to_string args : good (op_symbol_to_string ev args). Proof. unfold op_symbol_to_string. solve_good. Qed.
  Lemma good_op_string_to_symbol args : good (op_string_to_symbol ev args). Proof. unfold op_string_to_symbol. solve_good. Qed.
  Lemma good_op_int_to_string args : good (op_int_to_string ev args). Proof. unfold op_int_to_string. solve_good. Qed.

  Lemma good_op_list args : good (op_list ev args). Proof. unfold op_list. solve_good. Qed.
  Lemma good_eval_list1 args : good (eval_list1 ev args). Proof. unfold eval_list1. solve_good. Qed.
  Hint Resolve good_eval_list1 : goodb.
  Lemma good_op_first args : good (op_first ev args). Proof. unfold op_first. solve_good. Qed.
  Lemma good_op_second args : good (op_second ev args). Proof. unfold op_second. solve_good. Qed.
  Lemma good_op_last args : good (op_last ev args). Proof. unfold op_last. solve_good. Qed.
  Lemma good_op_rest args : good (op_rest ev args). Proof. unfold op_rest. solve_good. Qed.
  Lemma good_key_text v : good (key_text v). Proof. unfold key_text. solve_good. Qed.
  Hint Resolve good_key_text : goodb.
  Lemma good_op_in args : good (op_in ev args).
  Proof.
    unfold op_in. apply good_bind; [apply good_assert|intros _]. apply good_bind; [apply good_eval_args|intros vs].
    destruct (last_opt vs) as [v|]; [|apply good_fail]. destruct v; try apply good_fail.
    - induction (removelast vs) as [|c r IH]; [apply good_ret|]. destruct (py_in c l) as [[|]|]; [exact IH|apply good_ret|apply good_unm].
    - solve_good.
  Qed.
  Lemma good_op_map args : good (op_map ev args). Proof. unfold op_map. solve_good. Qed.
  Lemma good_op_maxmin b args : good (op_maxmin ev b args). Proof. unfold op_maxmin. solve_good. Qed.
  Lemma good_op_average args : good (op_average ev args). Proof. unfold op_average. solve_good. Qed.
  Lemma good_op_zip args : good (op_zip ev args). Proof. unfold op_zip. solve_good. Qed.
  Lemma good_op_length args : good (op_length ev args). Proof. unfold op_length. solve_good. Qed.
  Lemma good_op_fold args : good (op_fold ev args).
  Proof.
    unfold op_fold. apply good_bind; [apply good_assert|intros _].
    destruct args as [|f args]; [apply good_fail|]. destruct args as [|a args]; [apply good_fail|].
    destruct args as [|l args]; [apply good_fail|]. destruct args; [|apply good_fail].
    apply good_bind; [apply Hev|intros acc0]. apply good_bind; [apply Hev|intros lv].
    destruct lv; try apply good_fail.
    destruct f; try (apply good_bind; [apply Hev|intros fv]; destruct fv; try apply good_fail;
                     revert acc0; induction l0 as [|el r IH]; intros acc0; [apply good_ret|];
                     apply good_bind; [apply good_eval_closure|intros acc'; apply IH]).
    revert acc0. induction l0 as [|el r IH]; intros acc0; [apply good_ret|].
    apply good_bind; [apply Hev|intros acc'; apply IH].
  Qed.
  Lemma good_op_range args : good (op_range ev args). Proof. unfold op_range. solve_good. Qed.

  Lemma good_array_key v : good (array_key v). Proof. unfold array_key. solve_good. Qed.
  Hint Resolve good_array_key : goodb.
  Lemma good_op_array args : good (op_array ev args).
  Proof.
    unfold op_array. generalize (@nil (string * val)).
    induction args as [|a r IH]; intros d; [apply good_new_array|].
    destruct a; try apply good_fail; try apply good_unm.
    apply good_bind; [apply good_assert|intros _].
    destruct l as [|k l]; [apply good_fail|]. destruct l as [|e l]; [apply good_fail|]. destruct l; [|apply good_fail].
    apply good_bind; [apply Hev|intros kv]. apply good_bind; [apply good_array_key|intros key].
    apply good_bind; [apply Hev|intros v]. apply IH.
  Qed.
  Lemma good_eval_array a : good (eval_array ev a). Proof. unfold eval_array. solve_good. Qed.
  Hint Resolve good_eval_array : goodb.
  Lemma good_op_seta args : good (op_seta ev args). Proof. unfold op_seta. solve_good. Qed.
  Lemma good_op_geta args : good (op_geta ev args). Proof. unfold op_geta. solve_good. Qed.
  Lemma good_op_dela args : good (op_dela ev args). Proof. unfold op_dela. solve_good. Qed.
  Lemma good_op_mapa args : good (op_mapa ev args). Proof. unfold op_mapa. solve_good. Qed.

  Lemma good_load_m file tid : good (load_m file tid).
  Proof.
    unfold load_m. solve_good.
    all: try (apply R_upd_cont; reflexivity).
  Qed.
  Hint Resolve good_load_m : goodb.
  Lemma good_op_load args : good (op_load ev args). Proof. unfold op_load. solve_good. Qed.
  Lemma good_op_unload args : good (op_unload ev args).
  Proof.
    unfold op_unload. solve_good.
    all: try (apply R_upd_cont; unfold cont_unload; match goal with |- context [if ?b then _ else _] => destruct b end; reflexivity).
  Qed.
  Lemma good_step_tid tid n : good (step_tid tid n).
  Proof.
    unfold step_tid. destruct (name_of tid) as [id|]; [|apply good_fail].
    intros st a st' H. binv H. injection E as <- <-.
    destruct (cont_step (st_cont st) n (Some id)) as [[c ended]|] eqn:Ec; [|discriminate].
    binv H. unfold modify in E. injection E as _ <-. unfold ret in H. injection H as _ <-.
    apply R_upd_cont. eapply cont_step_stack. exact Ec.
  Qed.
  Hint Resolve good_step_tid : goodb.
  Lemma good_op_step args : good (op_step ev args). Proof. unfold op_step. solve_good. Qed.
  Lemma good_op_is_signal args : good (op_is_signal ev args). Proof. unfold op_is_signal. solve_good. Qed.

  Lemma good_set_trace_index tid i : good (set_trace_index tid i). Proof. unfold set_trace_index. solve_good. Qed.
  Lemma good_trace_of tid : good (trace_of tid). Proof. unfold trace_of. solve_good. Qed.
  Hint Resolve good_set_trace_index good_trace_of : goodb.
  Lemma good_find_walk n tid c : forall acc, good (find_walk ev n tid c acc).
  Proof. induction n as [|n IH]; intros acc; cbn [find_walk]; solve_good. Qed.
  Hint Resolve good_find_walk : goodb.
  Lemma good_op_find args : good (op_find loopfuel ev args). Proof. unfold op_find. solve_good. Qed.
  Lemma good_restore_saved saved : good (restore_saved saved).
  Proof.
    unfold restore_saved. apply good_bind; [apply good_get_st|intros st0].
    induction (c_traces (st_cont st0)) as [|[tid t] r IH]; [apply good_ret|].
    destruct (alookup tid saved); [|apply good_fail].
    apply good_bind; [apply good_set_trace_index|intros _; exact IH].
  Qed.
  Hint Resolve good_restore_saved : goodb.
  Lemma good_findg_loop n c : forall acc, good (findg_loop ev n c acc).
  Proof. induction n as [|n IH]; intros acc; cbn [findg_loop]; solve_good. Qed.
  Hint Resolve good_findg_loop : goodb.
  Lemma good_op_find_g args : good (op_find_g loopfuel ev args). Proof. unfold op_find_g. solve_good. Qed.
  Lemma good_whenever_loop n c body : forall last, good (whenever_loop ev n c body last).
  Proof. induction n as [|n IH]; intros last; cbn [whenever_loop]; solve_good. Qed.
  Hint Resolve good_whenever_loop : goodb.
  Lemma good_op_whenever args : good (op_whenever loopfuel ev args). Proof. unfold op_whenever. solve_good. Qed.
  Lemma good_op_signal_width args : good (op_signal_width ev args). Proof. unfold op_signal_width. solve_good. Qed.
  Lemma good_sample_trace tid idx : good (sample_trace tid idx). Proof. unfold sample_trace. solve_good. Qed.
  Hint Resolve good_sample_trace : goodb.
  Lemma good_op_sample_at args : good (op_sample_at ev args). Proof. unfold op_sample_at. solve_good. Qed.
  Lemma good_op_trim_trace args : good (op_trim_trace ev args). Proof. unfold op_trim_trace. solve_good. Qed.
  Lemma good_op_defsig args : good (op_defsig args). Proof. unfold op_defsig. solve_good. Qed.

  Lemma good_dispatch o args : good (dispatch loopfuel ev ex o args).
  Proof.
    destruct o; cbn [dispatch];
      first [ apply good_unm | apply good_fail
            | apply good_op_not | apply good_op_eq | apply good_op_cmp | apply good_op_and | apply good_op_or
            | apply good_op_let | apply good_op_define | apply good_op_set | apply good_op_print | apply good_op_printf
            | apply good_op_if | apply good_op_case | apply good_op_do | apply good_op_while | apply good_op_alias
            | apply good_op_unalias | apply good_op_quote | apply good_op_quasiquote | apply good_op_eval
            | apply good_op_defmacro | apply good_op_macroexpand | apply good_op_gensym | apply good_op_fn | apply good_op_get
            | apply good_op_reval | apply good_op_in_scope | apply good_op_resolve_scope | apply good_op_all_scopes
            | apply good_op_set_scope | apply good_op_unset_scope | apply good_op_groups | apply good_op_in_group
            | apply good_op_in_groups | apply good_op_resolve_group | apply good_op_slice | apply good_op_loaded_traces
            | apply good_op_exit | apply good_op_add | apply good_op_sub | apply good_op_mul | apply good_op_div
            | apply good_op_exp | apply good_op_mod | apply good_op_bitwise | apply good_op_is_defined | apply good_op_all_pred
            | apply good_op_convert_bin | apply good_op_string_to_int | apply good_op_bits_to_sint
            | apply good_op_string_to_symbol | apply good_op_symbol_to_string | apply good_op_int_to_string
            | apply good_op_list | apply good_op_first | apply good_op_second | apply good_op_last | apply good_op_rest
            | apply good_op_in | apply good_op_map | apply good_op_maxmin | apply good_op_average | apply good_op_zip
            | apply good_op_length | apply good_op_fold | apply good_op_range | apply good_op_array | apply good_op_seta
            | apply good_op_geta | apply good_op_dela | apply good_op_mapa | apply good_op_load | apply good_op_unload
            | apply good_op_step | apply good_op_is_signal | apply good_op_find | apply good_op_find_g | apply good_op_whenever
            | apply good_op_signal_width | apply good_op_sample_at | apply good_op_trim_trace | apply good_op_defsig ].
  Qed.
  Hint Resolve good_dispatch : goodb.

  Lemma good_eval_body e : good (eval_body loopfuel ev ex e).
  Proof. unfold eval_body. solve_good. Qed.

  Lemma good_macro_params menv : forall ps vals,
    good ((fix go (ps vals : list val) : M unit :=
             match ps, vals with
             | VSym pn _ :: pr, v :: vr => env_define menv pn v ;;; go pr vr
             | _ :: _, _ :: _ => fail EOther
             | _, _ => ret tt
             end) ps vals).
  Proof.
    induction ps as [|p ps IH]; intros vals; [destruct vals; apply good_ret|].
    destruct vals as [|v vals]; [destruct p; apply good_ret|].
    destruct p; try apply good_fail. apply good_bind; [apply good_env_define|intros _; apply IH].
  Qed.

  Lemma env_read_state id n st v st' : env_read id n st = Ok v st' -> st' = st.
  Proof.
    unfold env_read. destruct (lookup_frame st id n); [|discriminate]. destruct (get_frame st n0); [|discriminate].
    destruct (alookup n (f_binds f)); [|discriminate]. intros H. injection H as _ <-. reflexivity.
  Qed.

  Lemma good_expand_body e parent : good (expand_body ev ex e parent).
  Proof.
    unfold expand_body. destruct e; try apply good_ret.
    destruct (is_quote_head l); [apply good_ret|].
    intros st a st' H. binv H. injection E as <- <-.
    binv H.
    assert (R2 : R s st').
    { revert H. generalize st'. generalize a. generalize s.
      change (good (match a0 with
                    | inl items => items' <- mapM (fun x => ex x parent) items ;; ret (WL items')
                    | inr other => ret other
                    end)).
      solve_good. }
    refine (R_trans _ _ _ _ R2). clear H R2.
    destruct l as [|h vals]; [injection E as _ <-; apply R_refl|].
    destruct h; try (injection E as _ <-; apply R_refl).
    destruct (lookup_frame st (st_cur st) n); [|injection E as _ <-; apply R_refl].
    binv E. apply env_read_state in E0. subst s0.
    destruct a1; try (injection E as _ <-; apply R_refl).
    (* a macro call: the expansion runs in a fresh frame and the caller's frame is put back *)
    binv E. pose proof (good_new_frame _ _ _ _ E0) as [C1 [S1 F1]].
    binv E.
    assert (R3 : R s0 s1).
    { revert E1.
      match goal with |- (match ?p with _ => _ end) _ = _ -> _ => destruct p end; try (intros E1; discriminate).
      - apply good_env_define.
      - match goal with |- (if ?w then _ else _) _ = _ -> _ => destruct w | |- (match ?w with _ => _ end) _ = _ -> _ => destruct w end;
          try (intros E1; discriminate).
        apply good_bind; [apply good_assert|intros; apply good_macro_params]. }
    destruct R3 as [C3 [S3 F3]].
    binv E. unfold modify in E2. injection E2 as _ <-.
    binv E. pose proof (Hev _ _ _ _ E2) as [C4 [S4 F4]].
    binv E.
    assert (R5 : R s2 s3).
    { revert E3. match goal with |- (match ?x with _ => _ end) _ = _ -> _ => destruct x end;
        try (intros E3; discriminate); try apply good_ret.
      match goal with |- (if ?w then _ else _) _ = _ -> _ => destruct w | |- (match ?w with _ => _ end) _ = _ -> _ => destruct w end;
        try (intros E3; discriminate); apply good_ret. }
    destruct R5 as [C5 [S5 F5]].
    binv E. pose proof (Hex _ _ _ _ _ E4) as [C6 [S6 F6]].
    binv E. unfold modify in E5. injection E5 as _ <-.
    assert (Hst : s = upd_cur s4 (st_cur st)).
    { revert E. match goal with |- (match ?x with _ => _ end) _ = _ -> _ => destruct x end;
        try (intros E; unfold ret in E; injection E as _ <-; reflexivity).
      match goal with |- (if ?w then _ else _) _ = _ -> _ => destruct w | |- (match ?w with _ => _ end) _ = _ -> _ => destruct w end;
        intros E; unfold ret in E; injection E as _ <-; reflexivity. }
    subst s. split; [reflexivity|]. split.
    - cbn [upd_cur st_cont] in *. congruence.
    - heap_chain.
  Qed.
End WithEv.

(** * T-bal for the whole evaluator *)
Theorem eval_expand_balanced (lf : nat) : forall fuel,
  (forall e, good (eval lf fuel e)) /\ (forall e p, good (expand lf fuel e p)).
Proof.
  induction fuel as [|f [IHe IHx]].
  - split; intros; intros st a st' H; discriminate.
  - split.
    + intros e. cbn [eval]. apply good_eval_body; assumption.
    + intros e p. cbn [expand]. apply good_expand_body; assumption.
Qed.

Corollary eval_balanced lf fuel e st v st' :
  eval lf fuel e st = Ok v st' ->
  st_cur st' = st_cur st /\ c_stack (st_cont st') = c_stack (st_cont st) /\
  exists extra, parents st' = parents st +++ extra.
Proof. intros H. exact (proj1 (eval_expand_balanced lf fuel) e st v st' H). Qed.
