(** Arith.v — integer / bit-vector primitives as coded in
    wal/implementation/{math,bitwise,types,core}.py and trace.py (C09).
    Python [int] is unbounded, so the carrier is [Z]; nothing wraps. *)
From WalModel Require Export Ast.

(** [(x & (1 << i)) >> i]; a negative shift count is a ValueError in Python *)
Definition slice1 (x i : Z) : option Z :=
  if i <? 0 then None
  else Some (Z.shiftr (Z.land x (Z.shiftl 1 i)) i).

(** [(x & (((1 << (u-l+1)) - 1) << l)) >> l] *)
Definition slice2 (x u l : Z) : option Z :=
  if (u - l + 1 <? 0) || (l <? 0) then None
  else Some (Z.shiftr (Z.land x (Z.shiftl (Z.shiftl 1 (u - l + 1) - 1) l)) l).

Fixpoint zeros (n : nat) : string :=
  match n with O => "" | S k => String "0"%char (zeros k) end.

(** [f'{value:0{width}b}'] for width >= 0: sign-aware zero padding *)
Definition convert_bin (v w : Z) : string :=
  if v <? 0 then
    let d := numeral 2 (- v) in
    String "-"%char (zeros (Z.to_nat (w - 1 - slen d)) ++ d)
  else
    let d := numeral 2 v in
    zeros (Z.to_nat (w - slen d)) ++ d.

(** classification of the text handed to Python's [int(s, base)] *)
Inductive int_parse := IntOk (z : Z) | IntBad | IntUnmodelled.

Definition is_int_special (c : ascii) : bool :=
  is_pyspace c || Ascii.eqb c "_"%char || Ascii.eqb c "+"%char || Ascii.eqb c "-"%char.

Definition has_radix_prefix (s : string) : bool :=
  match s with
  | String "0"%char (String c _) =>
      let n := ascii_Z c in
      (n =? 98) || (n =? 66) || (n =? 111) || (n =? 79) || (n =? 120) || (n =? 88)
  | _ => false
  end.

(** [int(s, base)] on a plain digit string; texts that Python might accept
    through its extras (sign, blanks, underscores, radix prefix) are
    [IntUnmodelled] except for a single leading sign, which is modelled. *)
Definition py_int_unsigned (base : Z) (s : string) : int_parse :=
  match digits_val base s with
  | Some z => IntOk z
  | None =>
      if sany is_int_special s || has_radix_prefix s then IntUnmodelled else IntBad
  end.

Definition py_int (base : Z) (s : string) : int_parse :=
  match s with
  | String "-"%char r =>
      match r with
      | EmptyString => IntBad
      | String c _ =>
          if is_int_special c then IntUnmodelled
          else match py_int_unsigned base r with
               | IntOk z => IntOk (- z)
               | x => x
               end
      end
  | String "+"%char r =>
      match r with
      | EmptyString => IntBad
      | String c _ =>
          if is_int_special c then IntUnmodelled else py_int_unsigned base r
      end
  | _ => py_int_unsigned base s
  end.

(** trace.py: [int(bits, 2)] else the raw text.  VCD/CSV value texts never
    carry signs or blanks; a text with Python-only extras stays raw here and
    the correspondence check would flag it. *)
Definition to_value_text (bits : string) : option Z := digits_val 2 bits.

Definition flip_bit (c : ascii) : ascii :=
  if Ascii.eqb c "0"%char then "1"%char else "0"%char.

(** types.py op_bits_to_sint, as coded *)
Definition bits_to_sint (s : string) : option int_parse :=
  match s with
  | EmptyString => None                       (* IndexError *)
  | String c _ =>
      if Ascii.eqb c "1"%char then
        match py_int 2 (smap flip_bit s) with
        | IntOk u => Some (IntOk (- (u + 1)))
        | x => Some x
        end
      else Some (py_int 2 s)
  end.

(** [str(int)] *)
Definition int_to_string (z : Z) : string := dec_of_Z z.

(** unsigned value of a bit string / its two's-complement reading (specs) *)
Definition unsigned_bits (s : string) : option Z := digits_val 2 s.

Definition z_pow (a b : Z) : Z := Z.pow a b.
