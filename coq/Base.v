(** Base.v — strings, association lists, numerals, Python-like helpers.
    Model files contain definitions only; lemmas live in proofs/. *)
From Coq Require Export ZArith List Bool String Ascii Lia.
Export ListNotations.
Open Scope string_scope.
Open Scope Z_scope.

(** * Characters *)
Definition ch (n : nat) : ascii := ascii_of_nat n.
Definition ascii_eqb := Ascii.eqb.
Definition ascii_Z (c : ascii) : Z := Z.of_N (N_of_ascii c).

Definition is_digit (c : ascii) : bool := let n := ascii_Z c in (48 <=? n) && (n <=? 57).
Definition is_lower (c : ascii) : bool := let n := ascii_Z c in (97 <=? n) && (n <=? 122).
Definition is_upper (c : ascii) : bool := let n := ascii_Z c in (65 <=? n) && (n <=? 90).
Definition is_alpha (c : ascii) : bool := is_lower c || is_upper c.
(* Python str.split() / str.strip() whitespace restricted to ASCII:
   space \t \n \r \x0b \x0c and the separators \x1c-\x1f *)
Definition is_pyspace (c : ascii) : bool :=
  let n := ascii_Z c in (n =? 32) || ((9 <=? n) && (n <=? 13)) || ((28 <=? n) && (n <=? 31)).

(** * Strings (Coq [string] = list of bytes) *)
Fixpoint slen (s : string) : Z :=
  match s with EmptyString => 0 | String _ r => 1 + slen r end.

Fixpoint srev_app (s acc : string) : string :=
  match s with EmptyString => acc | String c r => srev_app r (String c acc) end.
Definition srev (s : string) : string := srev_app s EmptyString.

Fixpoint sconcat (l : list string) : string :=
  match l with [] => "" | x :: r => x ++ sconcat r end.

Fixpoint sjoin (sep : string) (l : list string) : string :=
  match l with
  | [] => ""
  | [x] => x
  | x :: r => x ++ sep ++ sjoin sep r
  end.

Fixpoint sprefix (p s : string) : bool :=
  match p, s with
  | EmptyString, _ => true
  | String a p', String b s' => Ascii.eqb a b && sprefix p' s'
  | _, EmptyString => false
  end.

Fixpoint sdrop (n : nat) (s : string) : string :=
  match n, s with
  | O, _ => s
  | S n', String _ r => sdrop n' r
  | S _, EmptyString => EmptyString
  end.

Fixpoint stake (n : nat) (s : string) : string :=
  match n, s with
  | O, _ => EmptyString
  | S n', String c r => String c (stake n' r)
  | S _, EmptyString => EmptyString
  end.

Fixpoint scontains_char (c : ascii) (s : string) : bool :=
  match s with EmptyString => false | String a r => Ascii.eqb a c || scontains_char c r end.

(* split at first occurrence of c: Some (before, after) *)
Fixpoint ssplit_first (c : ascii) (s : string) : option (string * string) :=
  match s with
  | EmptyString => None
  | String a r =>
      if Ascii.eqb a c then Some (EmptyString, r)
      else match ssplit_first c r with
           | Some (x, y) => Some (String a x, y)
           | None => None
           end
  end.

(* split on every occurrence of c (Python s.split(c)): always at least one piece *)
Fixpoint ssplit_char (c : ascii) (s : string) : list string :=
  match s with
  | EmptyString => [EmptyString]
  | String a r =>
      if Ascii.eqb a c then EmptyString :: ssplit_char c r
      else match ssplit_char c r with
           | x :: l => String a x :: l
           | [] => [String a EmptyString]
           end
  end.

(* does s contain sub as a substring *)
Fixpoint scontains (sub s : string) : bool :=
  sprefix sub s ||
  match s with EmptyString => false | String _ r => scontains sub r end.

Definition ssuffix (suf s : string) : bool := sprefix (srev suf) (srev s).

(* Python s.rfind(c) for a single character: index of last occurrence or -1 *)
Fixpoint srfind_aux (c : ascii) (s : string) (i : Z) (last : Z) : Z :=
  match s with
  | EmptyString => last
  | String a r => srfind_aux c r (i + 1) (if Ascii.eqb a c then i else last)
  end.
Definition srfind (c : ascii) (s : string) : Z := srfind_aux c s 0 (-1).

Definition string_of_list (l : list ascii) : string := string_of_list_ascii l.
Definition list_of_string (s : string) : list ascii := list_ascii_of_string s.

Fixpoint sall (p : ascii -> bool) (s : string) : bool :=
  match s with EmptyString => true | String a r => p a && sall p r end.
Fixpoint sany (p : ascii -> bool) (s : string) : bool :=
  match s with EmptyString => false | String a r => p a || sany p r end.

Fixpoint smap (f : ascii -> ascii) (s : string) : string :=
  match s with EmptyString => EmptyString | String a r => String (f a) (smap f r) end.

(* Python str.split(): maximal runs of non-whitespace *)
Fixpoint py_split_aux (s : string) (cur : string) : list string :=
  match s with
  | EmptyString => match cur with EmptyString => [] | _ => [srev cur] end
  | String a r =>
      if is_pyspace a then
        match cur with
        | EmptyString => py_split_aux r EmptyString
        | _ => srev cur :: py_split_aux r EmptyString
        end
      else py_split_aux r (String a cur)
  end.
Definition py_split (s : string) : list string := py_split_aux s EmptyString.

Fixpoint lstrip (s : string) : string :=
  match s with
  | String a r => if is_pyspace a then lstrip r else s
  | EmptyString => EmptyString
  end.
Definition rstrip (s : string) : string := srev (lstrip (srev s)).
Definition strip (s : string) : string := rstrip (lstrip s).

(** * Numerals *)
Definition digit_val (c : ascii) : option Z :=
  let n := ascii_Z c in
  if (48 <=? n) && (n <=? 57) then Some (n - 48)
  else if (97 <=? n) && (n <=? 122) then Some (n - 97 + 10)
  else if (65 <=? n) && (n <=? 90) then Some (n - 65 + 10)
  else None.

Definition digit_char (d : Z) : ascii :=
  if d <? 10 then ascii_of_N (Z.to_N (48 + d)) else ascii_of_N (Z.to_N (97 + d - 10)).

(* value of a non-empty digit string in [base]; None if a char is not a digit < base *)
Fixpoint digits_val_acc (base : Z) (s : string) (acc : Z) : option Z :=
  match s with
  | EmptyString => Some acc
  | String a r =>
      match digit_val a with
      | Some d => if d <? base then digits_val_acc base r (acc * base + d) else None
      | None => None
      end
  end.
Definition digits_val (base : Z) (s : string) : option Z :=
  match s with EmptyString => None | _ => digits_val_acc base s 0 end.

(* numeral of a non-negative z in [base], most significant digit first; "0" for 0.
   Recursion on explicit fuel = number of binary digits + 1 (enough for any base >= 2). *)
Fixpoint numeral_fuel (fuel : nat) (base z : Z) (acc : string) : string :=
  match fuel with
  | O => acc
  | S f =>
      if z <? base then String (digit_char z) acc
      else numeral_fuel f base (z / base) (String (digit_char (z mod base)) acc)
  end.
Definition numeral (base z : Z) : string :=
  numeral_fuel (S (Z.to_nat (Z.log2 z + 1))) base z EmptyString.

Definition dec_of_Z (z : Z) : string :=
  if z <? 0 then String "-"%char (numeral 10 (- z)) else numeral 10 z.

(** * Association lists with insertion order (Python dict) *)
Section Assoc.
  Context {V : Type}.
  Fixpoint alookup (k : string) (l : list (string * V)) : option V :=
    match l with
    | [] => None
    | (k', v) :: r => if String.eqb k k' then Some v else alookup k r
    end.
  (* d[k] = v : replace in place if present, else append at the end *)
  Fixpoint aset (k : string) (v : V) (l : list (string * V)) : list (string * V) :=
    match l with
    | [] => [(k, v)]
    | (k', v') :: r => if String.eqb k k' then (k', v) :: r else (k', v') :: aset k v r
    end.
  Fixpoint adel (k : string) (l : list (string * V)) : list (string * V) :=
    match l with
    | [] => []
    | (k', v') :: r => if String.eqb k k' then r else (k', v') :: adel k r
    end.
  Definition amem (k : string) (l : list (string * V)) : bool :=
    match alookup k l with Some _ => true | None => false end.
End Assoc.

Fixpoint smem (k : string) (l : list string) : bool :=
  match l with [] => false | x :: r => String.eqb k x || smem k r end.

Fixpoint dedup_str (l : list string) (seen : list string) : list string :=
  match l with
  | [] => []
  | x :: r => if smem x seen then dedup_str r seen else x :: dedup_str r (x :: seen)
  end.

Fixpoint zmem (k : Z) (l : list Z) : bool :=
  match l with [] => false | x :: r => (k =? x) || zmem k r end.

(* dict.fromkeys on integers: first occurrences, in order *)
Fixpoint dedup_Z (l : list Z) (seen : list Z) : list Z :=
  match l with
  | [] => []
  | x :: r => if zmem x seen then dedup_Z r seen else x :: dedup_Z r (x :: seen)
  end.

(* Z-indexed access *)
Definition znth {A} (l : list A) (i : Z) : option A :=
  if i <? 0 then None else nth_error l (Z.to_nat i).

Definition zlen {A} (l : list A) : Z := Z.of_nat (List.length l).

(* lexicographic comparison of strings by byte (Python str < for ASCII) *)
Fixpoint sltb (a b : string) : bool :=
  match a, b with
  | EmptyString, EmptyString => false
  | EmptyString, _ => true
  | _, EmptyString => false
  | String x a', String y b' =>
      if Ascii.eqb x y then sltb a' b' else (ascii_Z x <? ascii_Z y)
  end.

(* insertion sort, stable *)
Section Sort.
  Context {A : Type} (ltb : A -> A -> bool).
  Fixpoint insert_sorted (x : A) (l : list A) : list A :=
    match l with
    | [] => [x]
    | y :: r => if ltb x y then x :: l else y :: insert_sorted x r
    end.
  Fixpoint isort (l : list A) : list A :=
    match l with [] => [] | x :: r => insert_sorted x (isort r) end.
End Sort.

Fixpoint last_opt {A} (l : list A) : option A :=
  match l with [] => None | [x] => Some x | _ :: r => last_opt r end.

Fixpoint zrange_nat (start : Z) (n : nat) : list Z :=
  match n with O => [] | S k => start :: zrange_nat (start + 1) k end.

(** list append under a name that does not clash with string append *)
Infix "+++" := app (right associativity, at level 60).

Fixpoint str_of_codes (l : list nat) : string :=
  match l with [] => EmptyString | n :: r => String (ascii_of_nat n) (str_of_codes r) end.
