(** Printer.v — wal/util.py wal_str as coded (after the escaping fix), and
    Python's str() on the value kinds the evaluator hands to it. (C11) *)
From WalModel Require Export Trace.

(** str(float) for the floats whose shortest round-trip text is their exact
    decimal expansion: m*2^e with at most 15 significant decimal digits and
    1e-4 <= |x| < 1e16.  Anything else is [None] (unmodelled). *)
Fixpoint strip_trailing_zeros_rev (s : string) : string :=
  match s with
  | String "0"%char r => strip_trailing_zeros_rev r
  | _ => s
  end.

Definition float_str (f : spec_float) : option string :=
  match f with
  | S754_zero s => Some (if s then "-0.0" else "0.0")
  | S754_finite s m e =>
      let sign := if s then "-" else "" in
      if 0 <=? e then
        let z := Z.pos m * 2 ^ e in
        if z <? 10 ^ 16 then Some (sign ++ dec_of_Z z ++ ".0") else None
      else
        let k := - e in                     (* value = m * 5^k / 10^k *)
        if 60 <? k then None else
        let num := Z.pos m * 5 ^ k in
        let ip := num / 10 ^ k in
        let fp := num mod 10 ^ k in
        let fps := dec_of_Z fp in
        let fpad := zeros (Z.to_nat (k - slen fps)) ++ fps in
        let ftrim := srev (strip_trailing_zeros_rev (srev fpad)) in
        let frac := match ftrim with EmptyString => "0" | _ => ftrim end in
        let ips := dec_of_Z ip in
        (* significant digits: all of ip (if non-zero) plus frac, or frac without leading zeros *)
        let sig := if ip =? 0 then slen (dec_of_Z (match digits_val 10 frac with Some z => z | None => 0 end))
                   else slen ips + slen frac in
        if (sig <=? 15) && (ip <? 10 ^ 16) &&
           ((0 <? ip) || (10 ^ (k - 4) <=? fp)) then
          Some (sign ++ ips ++ "." ++ frac)
        else None
  | _ => None
  end.

(** str(x) for values that reach ''.join(map(str, ..)), to_str and friends *)
Definition py_str_atom (v : val) : option string :=
  match v with
  | VNone => Some "None"
  | VBool b => Some (if b then "True" else "False")
  | VInt z => Some (dec_of_Z z)
  | VFloat f => float_str f
  | VStr s => Some s
  | VSym n _ => Some n
  | _ => None
  end.

(** the string escaping of wal_str: backslash, double quote, newline, tab *)
Fixpoint escape_string (s : string) : string :=
  match s with
  | EmptyString => EmptyString
  | String c r =>
      let n := ascii_Z c in
      if n =? 92 then String c (String c (escape_string r))
      else if n =? 34 then String (ch 92) (String c (escape_string r))
      else if n =? 10 then String (ch 92) (String "n"%char (escape_string r))
      else if n =? 9 then String (ch 92) (String "t"%char (escape_string r))
      else if n =? 13 then String (ch 92) (String "r"%char (escape_string r))
      else String c (escape_string r)
  end.

Definition quote_string (s : string) : string :=
  String (ch 34) (escape_string s ++ String (ch 34) EmptyString).

Section WalStr.
  (* how an array reference prints; supplied by the evaluator (needs the heap) *)
  Variable arr_str : nat -> option string.

  Definition opt_cat (a b : option string) : option string :=
    match a, b with Some x, Some y => Some (x ++ y) | _, _ => None end.

  Fixpoint wal_str (v : val) : option string :=
    let fix join (l : list val) : option string :=
      match l with
      | [] => Some ""
      | [x] => wal_str x
      | x :: r => opt_cat (wal_str x) (opt_cat (Some " ") (join r))
      end in
    match v with
    | VList _ l =>
        match l with
        | [VOp OQuote; x] => opt_cat (Some "'") (wal_str x)
        | [VOp OQuasiquote; x] => opt_cat (Some "`") (wal_str x)
        | [VOp OUnquote; x] => opt_cat (Some ",") (wal_str x)
        | [VSym "reval" None; a; b] =>
            match b with
            | VInt z => opt_cat (wal_str a) (Some ("@" ++ dec_of_Z z))
            | VSym n _ => opt_cat (wal_str a) (Some ("@" ++ n))
            | _ => None
            end
        | VOp OArray :: _ => opt_cat (Some "{") (opt_cat (join l) (Some "}"))
        | _ => opt_cat (Some "(") (opt_cat (join l) (Some ")"))
        end
    | VSym n _ => Some n
    | VMacro n p b =>
        opt_cat (Some ("Macro: " ++ n ++ String (ch 10) "Args: "))
                (opt_cat (wal_str p) (opt_cat (Some (String (ch 10) "")) (wal_str b)))
    | VClos _ p b n =>
        opt_cat (Some ("Function: " ++ n ++ String (ch 10) "Args: "))
                (opt_cat (wal_str p) (opt_cat (Some (String (ch 10) "")) (wal_str b)))
    | VUnq x => opt_cat (Some ",") (wal_str x)
    | VUnqS x => opt_cat (Some ",@") (wal_str x)
    | VOp o => Some (op_name o)
    | VStr s => Some (quote_string s)
    | VBool b => Some (if b then "true" else "false")
    | VArr r => arr_str r
    | VNone => Some "None"
    | VInt z => Some (dec_of_Z z)
    | VFloat f => float_str f
    end.
End WalStr.

(** printer for heap-free values (what the reader can produce) *)
Definition wal_str0 (v : val) : option string := wal_str (fun _ => None) v.
