(** Wawk.v — wawk/ast_defs.py: classification of the parsed statements and
    AST.emit (the transpiler from WAWK statements to WAL forms), as coded;
    and the direct execution performed by wawk/wawk.py. (C20)
    The Earley parser of wawk/parser.py is not modelled: the model starts from
    the statements it produced. *)
From WalModel Require Export Api.

(** a parsed statement: conditions and action *)
Definition wstmt : Type := (list val * val)%type.

Definition is_marker (name : string) (c : list val) : bool :=
  match c with
  | [VSym n _] => String.eqb n name
  | _ => false
  end.

Definition begin_actions (p : list wstmt) : list val :=
  map snd (filter (fun s => is_marker "BEGIN" (fst s)) p).
Definition end_actions (p : list wstmt) : list val :=
  map snd (filter (fun s => negb (is_marker "BEGIN" (fst s)) && is_marker "END" (fst s)) p).
Definition cond_statements (p : list wstmt) : list wstmt :=
  filter (fun s => negb (is_marker "BEGIN" (fst s)) && negb (is_marker "END" (fst s))) p.

(** find_variables: assignment targets get 0, array targets an empty array, in first-occurrence order *)
Fixpoint find_vars (fuel : nat) (e : val) (vars : list (string * val)) : option (list (string * val)) :=
  match fuel with
  | O => None
  | S f =>
      match e with
      | VList _ l =>
          let fold_sub (l : list val) (vars : list (string * val)) :=
            fold_left (fun acc x => match acc with Some v => find_vars f x v | None => None end) l (Some vars) in
          let long := Nat.ltb 1 (List.length l) in
          let vars1 :=
            match l with
            | VOp OSet :: bindings =>
                if long then
                  fold_left (fun acc b =>
                               match acc, b with
                               | Some v, VList _ (VSym n _ :: rhs :: _) => find_vars f rhs (aset n (VInt 0) v)
                               | _, _ => None
                               end) bindings (Some vars)
                else Some vars
            | _ => Some vars
            end in
          match vars1 with
          | None => None
          | Some v1 =>
              match l with
              | VOp OSeta :: VSym n _ :: rest =>
                  if long then
                    match last_opt l with
                    | Some value => find_vars f value (aset n (PL [VOp OArray]) v1)
                    | None => None
                    end
                  else fold_sub l v1
              | VOp OSeta :: _ :: _ => None
              | _ => fold_sub l v1
              end
          end
      | _ => Some vars
      end
  end.

Definition emit_main_loop (stmts : list wstmt) : val :=
  PL (VOp OWhenever :: VBool true ::
      map (fun s => PL [VSym "when" None; PL (VOp OAnd :: fst s); snd s]) stmts).

Definition wawk_emit (p : list wstmt) : option (list val) :=
  let begin := begin_actions p in
  let endl := end_actions p in
  let stmts := cond_statements p in
  let main_loop := emit_main_loop stmts in
  let fuel := S (val_depth (PL (main_loop :: begin +++ endl))) in
  match find_vars fuel (PL begin) [] with
  | None => None
  | Some v1 =>
      match find_vars fuel (PL endl) v1 with
      | None => None
      | Some v2 =>
          match find_vars fuel main_loop v2 with
          | None => None
          | Some v3 =>
              let defs := map (fun kv => PL [VOp ODefine; VSym (fst kv) None; snd kv]) v3 in
              Some (PL (VOp ODo :: defs +++ begin) ::
                    (match stmts with [] => [] | _ => [main_loop] end) +++ endl)
          end
      end
  end.

(** wawk.py run(): load the trace as WAWK_TRACE, evaluate every emitted form through Wal.eval *)
Definition wawk_run (trace : string) (p : list wstmt) : M unit :=
  match wawk_emit p with
  | None => unm "wawk: emit outside the model"
  | Some forms =>
      wal_load trace "WAWK_TRACE" ;;;
      mapM (fun e => wal_eval e []) forms ;;; ret tt
  end.
