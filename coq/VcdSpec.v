(** VcdSpec.v — the document-level reading of a VCD text: what C01 says a
    well-formed file means.  Definitions only (no parser code is used here);
    proofs/VcdProofs.v shows that the parser model of Vcd.v computes exactly
    this reading for every well-formed document and every whitespace layout. *)
From WalModel Require Export Vcd.

(** * Dump section *)
Inductive ditem : Type :=
  | DTime (t : Z)                          (* #t *)
  | DScalar (c : ascii) (id : string)      (* 0! 1! x! z! X! Z! *)
  | DVector (bits : string) (id : string)  (* b0101 ! *)
  | DSkip (tok : string)                   (* $dumpvars $end $dumpall ... *)
  | DComment (ws : list string).           (* $comment ... $end *)

Definition render_ditem (d : ditem) : list string :=
  match d with
  | DTime t => [String "#"%char (numeral 10 t)]
  | DScalar c id => [String c id]
  | DVector bits id => [String "b"%char bits; id]
  | DSkip tok => [tok]
  | DComment ws => "$comment" :: ws +++ ["$end"]
  end.

Definition no_end (ws : list string) : bool :=
  forallb (fun w => negb (String.eqb w "$end")) ws.

Definition wf_ditem (d : ditem) : bool :=
  match d with
  | DTime t => 0 <=? t
  | DScalar c _ => is_scalar_char c
  | DVector _ _ => true
  | DSkip tok =>
      match tok with
      | EmptyString => false
      | String c _ => negb (Ascii.eqb c "#"%char) && negb (Ascii.eqb c "b"%char)
                      && negb (is_scalar_char c) && negb (String.eqb tok "$comment")
      end
  | DComment ws => no_end ws
  end.

(** the value an item assigns to identifier code [id], if any *)
Definition upd (d : ditem) (id cur : string) : string :=
  match d with
  | DScalar c i => if String.eqb id i then String c EmptyString else cur
  | DVector b i => if String.eqb id i then b else cur
  | _ => cur
  end.

(** value of [id] at the end of the current time step: the last assignment
    before the next timestamp (or the end of the file), else the value carried in *)
Fixpoint seg_end (items : list ditem) (id cur : string) : string :=
  match items with
  | [] => cur
  | DTime _ :: _ => cur
  | d :: r => seg_end r id (upd d id cur)
  end.

(** one value text per timestamp, in file order: "the last value the file
    assigns to the identifier code at or before that index's timestamp" *)
Fixpoint values (items : list ditem) (id cur : string) : list string :=
  match items with
  | [] => []
  | DTime _ :: r => seg_end r id cur :: values r id cur
  | d :: r => values r id (upd d id cur)
  end.

Fixpoint times (items : list ditem) : list Z :=
  match items with
  | [] => []
  | DTime t :: r => t :: times r
  | _ :: r => times r
  end.

(** * Header *)
Inductive hblock : Type :=
  | HMisc (kw : string) (ws : list string)        (* $comment/$date/$version ... $end *)
  | HTimescale1 (a : string)                      (* $timescale 1ns $end *)
  | HTimescale2 (a b : string)                    (* $timescale 1 ns $end *)
  | HScope (kind name : string)
  | HUpscope
  | HVar (kind : string) (width : Z) (id name : string) (extra : option string).

Definition render_hblock (b : hblock) : list string :=
  match b with
  | HMisc kw ws => kw :: ws +++ ["$end"]
  | HTimescale1 a => ["$timescale"; a; "$end"]
  | HTimescale2 a b => ["$timescale"; a; b; "$end"]
  | HScope kind name => ["$scope"; kind; name; "$end"]
  | HUpscope => ["$upscope"; "$end"]
  | HVar kind w id name extra =>
      ["$var"; kind; numeral 10 w; id; name] +++
      match extra with Some e => [e; "$end"] | None => ["$end"] end
  end.

Definition is_misc_kw (s : string) : bool :=
  String.eqb s "$comment" || String.eqb s "$version" || String.eqb s "$date".

Definition wf_hblock (b : hblock) : bool :=
  match b with
  | HMisc kw ws => is_misc_kw kw && no_end ws
  | HTimescale1 a => negb (String.eqb a "$end")
  | HTimescale2 a b => negb (String.eqb b "$end")
  | HScope _ _ => true
  | HUpscope => true
  | HVar _ w _ _ extra =>
      (0 <=? w) && match extra with Some e => first_char_is "["%char e | None => true end
  end.

(** scope depth never goes below zero *)
Fixpoint balanced (bs : list hblock) (depth : nat) : bool :=
  match bs with
  | [] => true
  | HScope _ _ :: r => balanced r (S depth)
  | HUpscope :: r => match depth with O => false | S d => balanced r d end
  | _ :: r => balanced r depth
  end.

(** declared variables with their full dotted names, in declaration order:
    (full name, identifier code, width) *)
Definition full_name (path : list string) (name : string) : string :=
  match path with
  | [] => norm_var_name name
  | _ => sjoin "." (rev path) ++ "." ++ norm_var_name name
  end.

Fixpoint decls (bs : list hblock) (path : list string) : list (string * string * Z) :=
  match bs with
  | [] => []
  | HScope _ n :: r => decls r (norm_scope_name n :: path)
  | HUpscope :: r => decls r (tl path)
  | HVar _ w id name _ :: r => (full_name path name, id, w) :: decls r path
  | _ :: r => decls r path
  end.

Fixpoint decl_scopes (bs : list hblock) (path : list string) : list string :=
  match bs with
  | [] => []
  | HScope _ n :: r =>
      sjoin "." (rev (norm_scope_name n :: path)) :: decl_scopes r (norm_scope_name n :: path)
  | HUpscope :: r => decl_scopes r (tl path)
  | _ :: r => decl_scopes r path
  end.

(** * Whole document and layout *)
Record vcd_doc : Type := mkDoc { d_header : list hblock; d_dump : list ditem }.

Definition render_doc (d : vcd_doc) : list string :=
  flat_map render_hblock (d_header d) +++ ["$enddefinitions"; "$end"] +++ flat_map render_ditem (d_dump d).

Definition wf_doc (d : vcd_doc) : bool :=
  forallb wf_hblock (d_header d) && balanced (d_header d) O && forallb wf_ditem (d_dump d).

(** a token: non-empty, no white space.  a separator: non-empty white space *)
Definition is_token (s : string) : bool :=
  negb (String.eqb s "") && sall (fun c => negb (is_pyspace c)) s.
Definition is_sep (s : string) : bool :=
  negb (String.eqb s "") && sall is_pyspace s.

(** tokens laid out with arbitrary separators (one per token, the last one
    trailing) after arbitrary leading white space *)
Fixpoint lay (toks seps : list string) : string :=
  match toks, seps with
  | t :: tr, s :: sr => t ++ s ++ lay tr sr
  | _, _ => EmptyString
  end.
Definition layout (lead : string) (toks seps : list string) : string := lead ++ lay toks seps.

(** a name denotes the identifier code of its (last) declaration; the last
    declaration of an identifier code decides its recorded width *)
Definition decl_id (ds : list (string * string * Z)) (name : string) : option string :=
  alookup name (fold_left (fun acc d => aset (fst (fst d)) (snd (fst d)) acc) ds []).

Definition decl_width (ds : list (string * string * Z)) (name : string) : option Z :=
  match decl_id ds name with
  | None => None
  | Some id => alookup id (fold_left (fun acc d => aset (snd (fst d)) (snd d) acc) ds [])
  end.
