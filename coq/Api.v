(** Api.v — wal/core.py (class Wal), SEval.reset, eval-file of the
    standard library (forms regenerated from /repo in Generated.v), and the
    command-line pipelines of wal/wal.py and wal/walc.py. (C16 C17) *)
From WalModel Require Export Eval.
From WalModel Require Import Generated.

Definition LF : nat := Z.to_nat 100000.      (* Python-level loop bound *)
Definition FUEL : nat := Z.to_nat 1200.      (* eval nesting bound *)

Definition ev0 : val -> M val := eval LF FUEL.
Definition ex0 : val -> option nat -> M val := expand LF FUEL.

(** SEval.reset(): fresh global frame; traces rewound to index 0 (their
    virtual signals, sampling tables and the container's index stack stay) *)
Definition reset_traces (c : container) : container :=
  with_traces c (map (fun p => (fst p, set_index (snd p) 0)) (c_traces c)).

Definition fresh_globals : list (string * val) :=
  [("CS", VStr ""); ("CG", VStr ""); ("ARGS", PL []); ("VIRTUAL", VArr O)].

Definition reset_state (st : state) : state :=
  mkState [mkFrame fresh_globals None] O [[]] (reset_traces (st_cont st)) "" "" [] 0
          (st_out st) (st_fs st).

Definition empty_state : state :=
  mkState [mkFrame fresh_globals None] O [[]] empty_container "" "" [] 0 [] [].

Definition global_names (st : state) : list string :=
  match get_frame st global_id with
  | Some f => map fst (f_binds f)
  | None => []
  end.

(** the per-form pipeline used by eval-file, Wal.eval and Wal.run *)
Definition passes_flags := (bool * bool * bool)%type.   (* expand, optimize, resolve *)
Definition all_passes : passes_flags := (true, true, true).

Definition run_form (fl : passes_flags) (e : val) : M val :=
  let '(do_expand, do_opt, do_res) := fl in
  e1 <- (if do_expand then ex0 e (Some global_id) else ret e) ;;
  (if do_opt && negb (optimize_modelled e1) then unm "optimize: float corner" else ret tt) ;;;
  let e2 := if do_opt then optimize e1 else e1 in
  st <- get_st ;;
  e3 <- (if do_res then
           match resolve (global_names st) e2 with
           | RsOk r => ret r
           | RsErr er => fail er
           end
         else ret e2) ;;
  ev0 e3.

Definition eval_forms (forms : list val) : M unit :=
  mapM (run_form all_passes) forms ;;; ret tt.

(** (eval-file std/std) (eval-file std/module) *)
Definition load_std : M unit := eval_forms std_forms ;;; eval_forms module_forms.

(** Wal(): new interpreter *)
Definition wal_init : res unit := load_std empty_state.

(** Python truthiness of an AST used by [if sexpr:] in Wal.eval / Wal.run *)
Definition ast_truthy (e : val) : bool :=
  match e with
  | VNone => false
  | VBool b => b
  | VInt z => negb (z =? 0)
  | VFloat f => negb (f_is_zero f)
  | VStr s => negb (String.eqb s "")
  | VList _ [] => false
  | _ => true
  end.

(** Wal.eval(sexpr, **kw) with a selectable pass pipeline *)
Definition wal_eval_with (fl : passes_flags) (e : val) (kw : list (string * val)) : M val :=
  shadowed <- mapM (fun p => st <- get_st ;;
                 match lookup_frame st global_id (fst p) with
                 | Some _ => old <- env_read global_id (fst p) ;;
                             env_write global_id (fst p) (snd p) ;;; ret [(fst p, old)]
                 | None => env_define global_id (fst p) (snd p) ;;; ret []
                 end) kw ;;
  r <- (if ast_truthy e then run_form fl e else ret VNone) ;;
  (* dict semantics: a repeated keyword cannot occur; the last saved value wins *)
  let sh := fold_left (fun acc kv => aset (fst kv) (snd kv) acc) (List.concat shadowed) [] in
  mapM (fun p => match alookup (fst p) sh with
                 | Some old => env_write global_id (fst p) old
                 | None => env_undefine global_id (fst p)
                 end) kw ;;;
  ret r.

Definition wal_eval := wal_eval_with all_passes.

(** Wal.run(sexpr, **kw) *)
Definition wal_run (e : val) (kw : list (string * val)) : M val :=
  if ast_truthy e then
    modify reset_state ;;;
    load_std ;;;
    mapM (fun p => env_define global_id (fst p) (snd p)) kw ;;;
    run_form all_passes e
  else ret VNone.

(** Wal.run_file / the wal command on a source file / walc + .wo *)
Definition api_run_file (forms : list val) : M val :=
  fold_left (fun acc e => acc ;;; wal_eval e []) forms (ret VNone).

(** main(): each form goes through the passes, then through Wal.eval (passes again) *)
Definition cli_run_forms (forms : list val) : M unit :=
  mapM (fun e =>
          e1 <- ex0 e (Some global_id) ;;
          (if optimize_modelled e1 then ret tt else unm "optimize: float corner") ;;;
          st <- get_st ;;
          match resolve (global_names st) (optimize e1) with
          | RsOk r => wal_eval r []
          | RsErr er => unm "main: pass error path"
          end) forms ;;; ret tt.

(** walc: expand + optimize per form, no evaluation *)
Definition walc_compile (forms : list val) : M (list val) :=
  mapM (fun e => e1 <- ex0 e (Some global_id) ;;
                 (if optimize_modelled e1 then ret tt else unm "optimize: float corner") ;;;
                 ret (optimize e1)) forms.

(** Wal.load(file, tid) through the API (exceptions are not wrapped) *)
Definition wal_load (file tid : string) : M unit := load_m file (Some tid).

(** Wal.step(steps, tid) *)
Definition wal_step (n : Z) (tid : option string) : M (list string) :=
  st <- get_st ;;
  match cont_step (st_cont st) n tid with
  | Some (c, ended) => modify (fun s => upd_cont s c) ;;; ret ended
  | None => fail EEval
  end.
