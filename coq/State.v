(** State.v — interpreter state (SEval + TraceContainer + heaps), the
    result monad and the environment operations of wal/ast_defs.py. *)
From WalModel Require Export Printer Csv.

Record frame : Type := mkFrame {
  f_binds : list (string * val);      (* Python dict, insertion ordered *)
  f_parent : option nat
}.

(** oracle file system for load: path -> content class *)
Inductive fsent : Type :=
  | FVcd (text : string)
  | FCsv (text : string).

Record state : Type := mkState {
  st_frames : list frame;             (* heap of Environment objects; 0 = global *)
  st_cur : nat;                       (* seval.environment *)
  st_arrays : list (list (string * val));  (* heap of dicts *)
  st_cont : container;                (* seval.traces *)
  st_scope : string;                  (* seval.scope *)
  st_group : string;                  (* seval.group *)
  st_aliases : list (string * string);
  st_gensym : Z;
  st_out : list string;               (* printed chunks, newest first *)
  st_fs : list (string * fsent)       (* files visible to load (oracle) *)
}.

Definition upd_frames st x := mkState x (st_cur st) (st_arrays st) (st_cont st) (st_scope st) (st_group st) (st_aliases st) (st_gensym st) (st_out st) (st_fs st).
Definition upd_cur st x := mkState (st_frames st) x (st_arrays st) (st_cont st) (st_scope st) (st_group st) (st_aliases st) (st_gensym st) (st_out st) (st_fs st).
Definition upd_arrays st x := mkState (st_frames st) (st_cur st) x (st_cont st) (st_scope st) (st_group st) (st_aliases st) (st_gensym st) (st_out st) (st_fs st).
Definition upd_cont st x := mkState (st_frames st) (st_cur st) (st_arrays st) x (st_scope st) (st_group st) (st_aliases st) (st_gensym st) (st_out st) (st_fs st).
Definition upd_scope st x := mkState (st_frames st) (st_cur st) (st_arrays st) (st_cont st) x (st_group st) (st_aliases st) (st_gensym st) (st_out st) (st_fs st).
Definition upd_group st x := mkState (st_frames st) (st_cur st) (st_arrays st) (st_cont st) (st_scope st) x (st_aliases st) (st_gensym st) (st_out st) (st_fs st).
Definition upd_aliases st x := mkState (st_frames st) (st_cur st) (st_arrays st) (st_cont st) (st_scope st) (st_group st) x (st_gensym st) (st_out st) (st_fs st).
Definition upd_gensym st x := mkState (st_frames st) (st_cur st) (st_arrays st) (st_cont st) (st_scope st) (st_group st) (st_aliases st) x (st_out st) (st_fs st).
Definition upd_out st x := mkState (st_frames st) (st_cur st) (st_arrays st) (st_cont st) (st_scope st) (st_group st) (st_aliases st) (st_gensym st) x (st_fs st).
Definition upd_fs st x := mkState (st_frames st) (st_cur st) (st_arrays st) (st_cont st) (st_scope st) (st_group st) (st_aliases st) (st_gensym st) (st_out st) x.

(** * Result monad *)
Inductive res (A : Type) : Type :=
  | Ok (a : A) (st : state)
  | Er (e : err) (st : state)
  | Unm (why : string)        (* behaviour outside the model: case is skipped *)
  | Fuel.                     (* out of fuel: never a normal-looking value *)
Arguments Ok {A}. Arguments Er {A}. Arguments Unm {A}. Arguments Fuel {A}.

Definition M (A : Type) : Type := state -> res A.

Definition ret {A} (a : A) : M A := fun st => Ok a st.
Definition bind {A B} (m : M A) (k : A -> M B) : M B :=
  fun st => match m st with
            | Ok a st' => k a st'
            | Er e st' => Er e st'
            | Unm w => Unm w
            | Fuel => Fuel
            end.
Definition fail {A} (e : err) : M A := fun st => Er e st.
Definition unm {A} (w : string) : M A := fun _ => Unm w.
Definition get_st : M state := fun st => Ok st st.
Definition put_st (s : state) : M unit := fun _ => Ok tt s.
Definition modify (f : state -> state) : M unit := fun st => Ok tt (f st).
Definition assert (b : bool) : M unit := if b then ret tt else fail EEval.
Definition require (b : bool) (e : err) : M unit := if b then ret tt else fail e.

Notation "x <- m ;; k" := (bind m (fun x => k))
  (at level 61, m at next level, right associativity).
Notation "m ;;; k" := (bind m (fun _ => k))
  (at level 61, right associativity).

Fixpoint mapM {A B} (f : A -> M B) (l : list A) : M (list B) :=
  match l with
  | [] => ret []
  | x :: r => y <- f x ;; ys <- mapM f r ;; ret (y :: ys)
  end.

Definition of_opt {A} (o : option A) (e : err) : M A :=
  match o with Some a => ret a | None => fail e end.

(** * Environments *)
Definition get_frame (st : state) (id : nat) : option frame := nth_error (st_frames st) id.

Fixpoint replace_frame (l : list frame) (id : nat) (f : frame) : list frame :=
  match l, id with
  | [], _ => []
  | _ :: r, O => f :: r
  | x :: r, S k => x :: replace_frame r k f
  end.

Definition put_frame (st : state) (id : nat) (f : frame) : state :=
  upd_frames st (replace_frame (st_frames st) id f).

(** Environment(parent=p): allocate *)
Definition new_frame (p : option nat) : M nat :=
  fun st => Ok (List.length (st_frames st))
               (upd_frames st (st_frames st +++ [mkFrame [] p])).

(** env.define(name, v): assert not already in this frame *)
Definition env_define (id : nat) (name : string) (v : val) : M unit :=
  fun st => match get_frame st id with
            | None => Er EOther st
            | Some f =>
                if amem name (f_binds f) then Er EEval st
                else Ok tt (put_frame st id (mkFrame (f_binds f +++ [(name, v)]) (f_parent f)))
            end.

(** env.undefine(name) *)
Definition env_undefine (id : nat) (name : string) : M unit :=
  fun st => match get_frame st id with
            | None => Er EOther st
            | Some f =>
                if amem name (f_binds f)
                then Ok tt (put_frame st id (mkFrame (adel name (f_binds f)) (f_parent f)))
                else Er EEval st
            end.

(** env.is_defined(name): the id of the nearest frame on the chain binding it.
    The chain is walked with fuel = heap size (chains are acyclic and
    parents are older frames, see proofs/Heap.v). *)
Fixpoint find_frame (fuel : nat) (st : state) (id : nat) (name : string) : option nat :=
  match fuel with
  | O => None
  | S k =>
      match get_frame st id with
      | None => None
      | Some f =>
          if amem name (f_binds f) then Some id
          else match f_parent f with
               | Some p => find_frame k st p name
               | None => None
               end
      end
  end.

Definition lookup_frame (st : state) (id : nat) (name : string) : option nat :=
  find_frame (S (List.length (st_frames st))) st id name.

(** env.read(name): assert found *)
Definition env_read (id : nat) (name : string) : M val :=
  fun st => match lookup_frame st id name with
            | Some fid =>
                match get_frame st fid with
                | Some f => match alookup name (f_binds f) with
                            | Some v => Ok v st
                            | None => Er EEval st
                            end
                | None => Er EEval st
                end
            | None => Er EEval st
            end.

(** store into a given frame's dict (d[name] = v: replace or append) *)
Definition frame_store (fid : nat) (name : string) (v : val) : M unit :=
  fun st => match get_frame st fid with
            | Some f => Ok tt (put_frame st fid (mkFrame (aset name v (f_binds f)) (f_parent f)))
            | None => Er EOther st
            end.

(** env.write(name, v): assert found somewhere on the chain *)
Definition env_write (id : nat) (name : string) (v : val) : M unit :=
  fun st => match lookup_frame st id name with
            | Some fid => frame_store fid name v st
            | None => Er EEval st
            end.

(** follow [n] parent links; None when the chain is shorter (AttributeError) *)
Fixpoint hop (st : state) (id : nat) (n : nat) : option nat :=
  match n with
  | O => Some id
  | S k => match get_frame st id with
           | Some f => match f_parent f with
                       | Some p => hop st p k
                       | None => None
                       end
           | None => None
           end
  end.

Definition global_id : nat := O.
Definition read_global (name : string) : M val := env_read global_id name.
Definition write_global (name : string) (v : val) : M unit := env_write global_id name v.

(** * Arrays (dict heap) *)
Definition new_array (d : list (string * val)) : M val :=
  fun st => Ok (VArr (List.length (st_arrays st))) (upd_arrays st (st_arrays st +++ [d])).

Definition get_array (r : nat) : M (list (string * val)) :=
  fun st => match nth_error (st_arrays st) r with
            | Some d => Ok d st
            | None => Er EOther st
            end.

Fixpoint replace_nth_l {A} (l : list A) (n : nat) (x : A) : list A :=
  match l, n with
  | [], _ => []
  | _ :: r, O => x :: r
  | y :: r, S k => y :: replace_nth_l r k x
  end.

Definition put_array (r : nat) (d : list (string * val)) : M unit :=
  modify (fun st => upd_arrays st (replace_nth_l (st_arrays st) r d)).

(** * Output *)
Definition emit (s : string) : M unit := modify (fun st => upd_out st (s :: st_out st)).
Definition output_of (st : state) : string := sconcat (rev (st_out st)).

(** * Python truthiness and equality *)
Definition truthy (st : state) (v : val) : bool :=
  match v with
  | VNone => false
  | VBool b => b
  | VInt z => negb (z =? 0)
  | VFloat f => negb (f_is_zero f)
  | VStr s => negb (String.eqb s "")
  | VList _ l => match l with [] => false | _ => true end
  | VArr r => match nth_error (st_arrays st) r with
              | Some [] => false
              | _ => true
              end
  | _ => true
  end.

Definition two53 : Z := 9007199254740992.

(** numeric view: ints and bools as Z, floats as floats *)
Inductive num : Type := NInt (z : Z) | NFloat (f : spec_float).
Definition as_num (v : val) : option num :=
  match v with
  | VBool b => Some (NInt (if b then 1 else 0))
  | VInt z => Some (NInt z)
  | VFloat f => Some (NFloat f)
  | _ => None
  end.
Definition is_int_val (v : val) : bool :=
  match v with VBool _ | VInt _ => true | _ => false end.
Definition is_num_val (v : val) : bool :=
  match v with VBool _ | VInt _ | VFloat _ => true | _ => false end.
Definition int_of (v : val) : option Z :=
  match v with VBool b => Some (if b then 1 else 0) | VInt z => Some z | _ => None end.

Definition small_int (z : Z) : bool := Z.abs z <=? two53.

(** three-way comparison of numbers; None = outside the model (huge int vs float, nan) *)
Definition num_cmp (a b : num) : option comparison :=
  match a, b with
  | NInt x, NInt y => Some (x ?= y)
  | NInt x, NFloat g => if small_int x then SFcompare (f_of_Z x) g else None
  | NFloat f, NInt y => if small_int y then SFcompare f (f_of_Z y) else None
  | NFloat f, NFloat g => SFcompare f g
  end.

(** Python ==.  None = unmodelled (identity comparisons of closures/arrays). *)
Fixpoint py_eq (a b : val) : option bool :=
  let fix eq_list (l1 l2 : list val) : option bool :=
    match l1, l2 with
    | [], [] => Some true
    | x :: r1, y :: r2 =>
        match py_eq x y with
        | Some true => eq_list r1 r2
        | Some false => Some false
        | None => None
        end
    | _, _ => Some false
    end in
  match as_num a, as_num b with
  | Some x, Some y =>
      match num_cmp x y with
      | Some Eq => Some true
      | Some _ => Some false
      | None => match x, y with
                | NFloat _, NFloat _ => Some false      (* nan *)
                | _, _ => None
                end
      end
  | _, _ =>
      match a, b with
      | VNone, VNone => Some true
      | VStr s, VStr t => Some (String.eqb s t)
      | VSym n s, VSym m t => Some (String.eqb n m && option_nat_eqb s t)
      | VOp o, VOp p => Some (op_eqb o p)
      | VList _ l1, VList _ l2 =>
          if Nat.eqb (List.length l1) (List.length l2) then eq_list l1 l2 else Some false
      | VUnq x, VUnq y => py_eq x y
      | VUnqS x, VUnqS y => py_eq x y
      | VClos _ _ _ _, VClos _ _ _ _ => None
      | VMacro _ _ _, VMacro _ _ _ => None
      | VArr _, VArr _ => None
      | _, _ => Some false
      end
  end.

(** Python slicing bounds: clamp(start), clamp(stop) on a sequence of length n *)
Definition clamp_index (n i : Z) : Z :=
  let j := if i <? 0 then i + n else i in
  if j <? 0 then 0 else if n <? j then n else j.

Definition py_slice_list {A} (l : list A) (lo hi : Z) : list A :=
  let n := zlen l in
  let a := clamp_index n lo in
  let b := clamp_index n hi in
  if b <=? a then [] else firstn (Z.to_nat (b - a)) (skipn (Z.to_nat a) l).

Definition py_index_list {A} (l : list A) (i : Z) : option A :=
  let n := zlen l in
  let j := if i <? 0 then i + n else i in
  if (j <? 0) || (n <=? j) then None else nth_error l (Z.to_nat j).
