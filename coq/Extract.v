(** Extract.v — extraction of the executable model to OCaml.
    Directives in force (all from the standard library, none hand-written):
      ExtrOcamlBasic : bool, option, unit, list, prod, sumbool, sumor -> OCaml natives
      ExtrOcamlString: ascii -> char, string -> char list
    Z, N, positive and nat stay the extracted inductive types (no OCaml int). *)
From Coq Require Import Extraction ExtrOcamlBasic ExtrOcamlString.
From WalModel Require Import Cases.
Extraction "model.ml" run_line.
