(** Ast.v — values (code = data) and the operator enumeration.
    The operator list is hand-written here and checked against the list
    regenerated from /repo's Operator enum (Generated.operator_values) by the
    proof obligation [Obligations.ops_match]. *)
From WalModel Require Export Base.
From Coq Require Export SpecFloat.

Inductive op : Set :=
  | OLoad
  | OUnload
  | OStep
  | ORepl
  | OLoadedTraces
  | OSignalP
  | ORequire
  | OEvalFile
  | OAdd
  | OSub
  | OMul
  | ODiv
  | OExp
  | OFloor
  | OCeil
  | ORound
  | OMod
  | OBor
  | OBand
  | OBxor
  | ONot
  | OEq
  | ONeq
  | OGt
  | OLt
  | OGe
  | OLe
  | OAnd
  | OOr
  | OPrint
  | OPrintf
  | OSet
  | ODefine
  | OLet
  | OIf
  | OCase
  | OWhile
  | ODo
  | OAlias
  | OUnalias
  | OQuote
  | OQuasiquote
  | OUnquote
  | OEval
  | OParse
  | ODefmacro
  | OMacroexpand
  | OGensym
  | OFn
  | OGet
  | OCall
  | OImport
  | OList
  | OFirst
  | OSecond
  | OLast
  | ORest
  | OIn
  | OMap
  | OMax
  | OMin
  | OFold
  | OLength
  | OAverage
  | OZip
  | ORange
  | OType
  | OReval
  | OArray
  | OSeta
  | OGeta
  | ODela
  | OMapa
  | OAllScopes
  | OInScope
  | OResolveScope
  | OSetScope
  | OUnsetScope
  | OGroups
  | OInGroup
  | OInGroups
  | OResolveGroup
  | OSlice
  | ODefinedP
  | OAtomP
  | OSymbolP
  | OStringP
  | OIntP
  | OListP
  | OConvertBin
  | OStringToInt
  | OBitsToSint
  | OStringToSymbol
  | OSymbolToString
  | OIntToString
  | OFind
  | OFindG
  | OWhenever
  | OFoldSignal
  | OSignalWidth
  | OSampleAt
  | OTrimTrace
  | OExit
  | ODefsig
  | ONewTrace
  | ODumpTrace.

Definition op_name (o : op) : string :=
  match o with
  | OLoad => "load"
  | OUnload => "unload"
  | OStep => "step"
  | ORepl => "repl"
  | OLoadedTraces => "loaded-traces"
  | OSignalP => "signal?"
  | ORequire => "require"
  | OEvalFile => "eval-file"
  | OAdd => "+"
  | OSub => "-"
  | OMul => "*"
  | ODiv => "/"
  | OExp => "**"
  | OFloor => "floor"
  | OCeil => "ceil"
  | ORound => "round"
  | OMod => "mod"
  | OBor => "bor"
  | OBand => "band"
  | OBxor => "bxor"
  | ONot => "!"
  | OEq => "="
  | ONeq => "!="
  | OGt => ">"
  | OLt => "<"
  | OGe => ">="
  | OLe => "<="
  | OAnd => "&&"
  | OOr => "||"
  | OPrint => "print"
  | OPrintf => "printf"
  | OSet => "set"
  | ODefine => "define"
  | OLet => "let"
  | OIf => "if"
  | OCase => "case"
  | OWhile => "while"
  | ODo => "do"
  | OAlias => "alias"
  | OUnalias => "unalias"
  | OQuote => "quote"
  | OQuasiquote => "quasiquote"
  | OUnquote => "unquote"
  | OEval => "eval"
  | OParse => "parse"
  | ODefmacro => "defmacro"
  | OMacroexpand => "macroexpand"
  | OGensym => "gensym"
  | OFn => "fn"
  | OGet => "get"
  | OCall => "call"
  | OImport => "import"
  | OList => "list"
  | OFirst => "first"
  | OSecond => "second"
  | OLast => "last"
  | ORest => "rest"
  | OIn => "in"
  | OMap => "map"
  | OMax => "max"
  | OMin => "min"
  | OFold => "fold"
  | OLength => "length"
  | OAverage => "average"
  | OZip => "zip"
  | ORange => "range"
  | OType => "type"
  | OReval => "reval"
  | OArray => "array"
  | OSeta => "seta"
  | OGeta => "geta"
  | ODela => "dela"
  | OMapa => "mapa"
  | OAllScopes => "all-scopes"
  | OInScope => "in-scope"
  | OResolveScope => "resolve-scope"
  | OSetScope => "set-scope"
  | OUnsetScope => "unset-scope"
  | OGroups => "groups"
  | OInGroup => "in-group"
  | OInGroups => "in-groups"
  | OResolveGroup => "resolve-group"
  | OSlice => "slice"
  | ODefinedP => "defined?"
  | OAtomP => "atom?"
  | OSymbolP => "symbol?"
  | OStringP => "string?"
  | OIntP => "int?"
  | OListP => "list?"
  | OConvertBin => "convert/bin"
  | OStringToInt => "string->int"
  | OBitsToSint => "bits->sint"
  | OStringToSymbol => "string->symbol"
  | OSymbolToString => "symbol->string"
  | OIntToString => "int->string"
  | OFind => "find"
  | OFindG => "find/g"
  | OWhenever => "whenever"
  | OFoldSignal => "fold/signal"
  | OSignalWidth => "signal-width"
  | OSampleAt => "sample-at"
  | OTrimTrace => "trim-trace"
  | OExit => "exit"
  | ODefsig => "defsig"
  | ONewTrace => "new-trace"
  | ODumpTrace => "dump-trace"
  end.

Definition all_ops : list op :=
  [OLoad; OUnload; OStep; ORepl; OLoadedTraces; OSignalP; ORequire; OEvalFile; OAdd; OSub; OMul; ODiv; OExp; OFloor; OCeil; ORound; OMod; OBor; OBand; OBxor; ONot; OEq; ONeq; OGt; OLt; OGe; OLe; OAnd; OOr; OPrint; OPrintf; OSet; ODefine; OLet; OIf; OCase; OWhile; ODo; OAlias; OUnalias; OQuote; OQuasiquote; OUnquote; OEval; OParse; ODefmacro; OMacroexpand; OGensym; OFn; OGet; OCall; OImport; OList; OFirst; OSecond; OLast; ORest; OIn; OMap; OMax; OMin; OFold; OLength; OAverage; OZip; ORange; OType; OReval; OArray; OSeta; OGeta; ODela; OMapa; OAllScopes; OInScope; OResolveScope; OSetScope; OUnsetScope; OGroups; OInGroup; OInGroups; OResolveGroup; OSlice; ODefinedP; OAtomP; OSymbolP; OStringP; OIntP; OListP; OConvertBin; OStringToInt; OBitsToSint; OStringToSymbol; OSymbolToString; OIntToString; OFind; OFindG; OWhenever; OFoldSignal; OSignalWidth; OSampleAt; OTrimTrace; OExit; ODefsig; ONewTrace; ODumpTrace].

Definition op_eqb (a b : op) : bool := String.eqb (op_name a) (op_name b).

Fixpoint op_of_name_in (l : list op) (s : string) : option op :=
  match l with
  | [] => None
  | o :: r => if String.eqb (op_name o) s then Some o else op_of_name_in r s
  end.
Definition op_of_name (s : string) : option op := op_of_name_in all_ops s.

(** Values.  [VList true] is a WList, [VList false] a plain Python list
    (the code tests [isinstance(_, WList)] in several places).  A closure
    holds the id of its captured frame; an array is a reference into the
    array heap (Python dicts are shared by reference). *)
Inductive val : Type :=
  | VNone
  | VBool (b : bool)
  | VInt (z : Z)
  | VFloat (f : spec_float)
  | VStr (s : string)
  | VSym (n : string) (steps : option nat)
  | VOp (o : op)
  | VList (w : bool) (l : list val)
  | VUnq (v : val)
  | VUnqS (v : val)
  | VClos (env : nat) (params : val) (body : val) (cname : string)
  | VMacro (mname : string) (params : val) (body : val)
  | VArr (ref : nat).

Definition WL (l : list val) : val := VList true l.
Definition PL (l : list val) : val := VList false l.
Definition Sy (n : string) : val := VSym n None.

(** binary64 helpers *)
Definition prec64 : Z := 53.
Definition emax64 : Z := 1024.
Definition f_add := SFadd prec64 emax64.
Definition f_sub := SFsub prec64 emax64.
Definition f_mul := SFmul prec64 emax64.
Definition f_div := SFdiv prec64 emax64.
Definition f_of_Z (z : Z) : spec_float := binary_normalize prec64 emax64 z 0 false.
Definition f_is_zero (f : spec_float) : bool :=
  match f with S754_zero _ => true | _ => false end.
Definition f_eqb := SFeqb.
Definition f_ltb := SFltb.
Definition f_leb := SFleb.

Definition option_nat_eqb (a b : option nat) : bool :=
  match a, b with
  | None, None => true
  | Some x, Some y => Nat.eqb x y
  | _, _ => false
  end.

(** IEEE-754 binary64 bit patterns <-> spec_float (used by the case protocol
    and by Generated.v; not by any theorem) *)
Definition f_of_bits (b : Z) : spec_float :=
  let sign := Z.odd (b / 2 ^ 63) in
  let ex := (b / 2 ^ 52) mod 2 ^ 11 in
  let mant := b mod 2 ^ 52 in
  if ex =? 0 then
    match mant with
    | Zpos m => S754_finite sign m (-1074)
    | _ => S754_zero sign
    end
  else if ex =? 2047 then
    if mant =? 0 then S754_infinity sign else S754_nan
  else
    match mant + 2 ^ 52 with
    | Zpos m => S754_finite sign m (ex - 1075)
    | _ => S754_nan
    end.

Definition bits_of_f (f : spec_float) : Z :=
  let sb (s : bool) := if s then 2 ^ 63 else 0 in
  match f with
  | S754_zero s => sb s
  | S754_infinity s => sb s + 2047 * 2 ^ 52
  | S754_nan => 2047 * 2 ^ 52 + 2 ^ 51
  | S754_finite s m e =>
      if Z.pos m <? 2 ^ 52 then sb s + Z.pos m
      else sb s + (e + 1075) * 2 ^ 52 + (Z.pos m - 2 ^ 52)
  end.
