(** Cases.v — runs one protocol line (a session of commands against a fresh
    interpreter) and renders the observations.  Used by the extracted
    driver and by the in-Coq [vm_compute] cross-check; no theorem depends
    on this file. *)
From WalModel Require Export Proto Reader Wawk WawkParse.

Definition PF : nat := Z.to_nat 100000.
Definition init_result : res unit := wal_init.
Definition init_state : state :=
  match init_result with Ok _ st => st | _ => empty_state end.
Definition init_ok : bool := match init_result with Ok _ _ => true | _ => false end.

Definition err_token (e : err) : string :=
  match e with
  | EEval => "E" | EOther => "O" | EParse => "P"
  | EExit z => "X" ++ dec_of_Z z
  end.

Definition render {A} (pr : state -> A -> string) (r : res A) : string * option state :=
  match r with
  | Ok a st => ("ok " ++ pr st a, Some st)
  | Er e st => ("err " ++ err_token e ++ " out=" ++ hex_of_string (output_of st), None)
  | Unm w => ("unm " ++ hex_of_string w, None)
  | Fuel => ("fuel", None)
  end.

Definition pr_val (st : state) (v : val) : string := print_val (st_arrays st) 60 v.
Definition pr_unit (st : state) (_ : unit) : string := "N".
Definition pr_strs (st : state) (l : list string) : string :=
  "[ " ++ sconcat (map (fun s => "S" ++ hex_of_string s ++ " ") l) ++ "]".

Fixpoint parse_kw (fuel : nat) (toks : list string) : option (list (string * val)) :=
  match fuel with
  | O => None
  | S f =>
      match toks with
      | [] => Some []
      | t :: r =>
          match t with
          | String "S"%char h =>
              match string_of_hex h, parse_val PF r with
              | Some name, Some (v, r') =>
                  match parse_kw f r' with
                  | Some kw => Some ((name, v) :: kw)
                  | None => None
                  end
              | _, _ => None
              end
          | _ => None
          end
      end
  end.

Definition flags_of (t : string) : passes_flags :=
  match t with
  | String _ (String a (String b (String c _))) =>
      (Ascii.eqb a "1"%char, Ascii.eqb b "1"%char, Ascii.eqb c "1"%char)
  | _ => all_passes
  end.

Definition str_arg (t : string) : option string :=
  match t with String "S"%char h => string_of_hex h | _ => None end.

(** dump of one trace: everything C01/C18 observe, computed by walking the
    indices with the model's own accessors *)
Definition dump_trace (t : trace) : string :=
  let n := tr_max t + 1 in
  let idxs := zrange_nat 0 (Z.to_nat n) in
  let col (name : string) : string :=
    sconcat (map (fun i =>
      match trace_signal_value 1 (set_index t i) name "" with
      | SVal v => print_val [] 5 v ++ ","
      | _ => "!,"
      end) idxs) in
  "max=" ++ dec_of_Z (tr_max t)
  ++ " ts=" ++ sconcat (map (fun i => match znth (tr_ts t) i with
                                       | Some x => dec_of_Z x ++ "," | None => "!," end) idxs)
  ++ " scopes=" ++ sconcat (map (fun s => hex_of_string s ++ ",") (tr_scopes t))
  ++ " signals=" ++ sconcat (map (fun s => hex_of_string s ++ ":"
                                  ++ match alookup s (tr_widths t) with
                                     | Some w => dec_of_Z w | None => "!" end
                                  ++ ":" ++ col s ++ " ") (tr_raw t)).

Definition run_cmd (toks : list string) (st : state) : string * option state :=
  match toks with
  | "file" :: p :: t :: _ =>
      match str_arg p, str_arg t with
      | Some path, Some text =>
          ("ok N", Some (upd_fs st (aset path (FVcd text) (st_fs st))))
      | _, _ => ("bad", None)
      end
  | "load" :: p :: t :: _ =>
      match str_arg p, str_arg t with
      | Some path, Some tid => render pr_unit (wal_load path tid st)
      | _, _ => ("bad", None)
      end
  | "eval" :: fl :: r =>
      match parse_val PF r with
      | Some (e, r') =>
          match parse_kw 1000 r' with
          | Some kw => render pr_val (wal_eval_with (flags_of fl) e kw st)
          | None => ("bad", None)
          end
      | None => ("bad", None)
      end
  | "bare" :: r =>
      match parse_val PF r with
      | Some (e, _) => render pr_val (ev0 e st)
      | None => ("bad", None)
      end
  | "run" :: r =>
      match parse_val PF r with
      | Some (e, r') =>
          match parse_kw 1000 r' with
          | Some kw => render pr_val (wal_run e kw st)
          | None => ("bad", None)
          end
      | None => ("bad", None)
      end
  | "step" :: n :: tid :: _ =>
      match parse_val 10 [n] with
      | Some (VInt z, _) =>
          let t := match tid with "N" => None | _ => str_arg tid end in
          render pr_strs (wal_step z t st)
      | _ => ("bad", None)
      end
  | "runfile" :: r =>
      match parse_val PF r with
      | Some (VList _ forms, _) => render pr_val (api_run_file forms st)
      | _ => ("bad", None)
      end
  | "cli" :: r =>
      match parse_val PF r with
      | Some (VList _ forms, _) => render pr_unit (cli_run_forms forms st)
      | _ => ("bad", None)
      end
  | "walc" :: r =>
      match parse_val PF r with
      | Some (VList _ forms, _) =>
          render (fun st l => pr_val st (PL l)) (walc_compile forms st)
      | _ => ("bad", None)
      end
  | "dump" :: t :: _ =>
      match str_arg t with
      | Some tid =>
          match alookup tid (c_traces (st_cont st)) with
          | Some tr => ("ok " ++ dump_trace tr, Some st)
          | None => ("err O", None)
          end
      | None => ("bad", None)
      end
  | "vcd" :: t :: _ =>
      match str_arg t with
      | Some text =>
          match vcd_parse "T" "f.vcd" text with
          | POk tr => ("ok " ++ dump_trace tr, Some st)
          | PErr e => ("err " ++ err_token e, None)
          | PUnmodelled => ("unm 00", None)
          end
      | None => ("bad", None)
      end
  | "read" :: t :: _ =>
      match str_arg t with
      | Some text =>
          match read_sexpr text with
          | ROk v _ => ("ok " ++ print_val [] 200 v, Some st)
          | RErr => ("err P", Some st)
          | RUnm => ("unm 00", None)
          end
      | None => ("bad", None)
      end
  | "reads" :: t :: _ =>
      match str_arg t with
      | Some text =>
          match read_sexprs text with
          | ROk l _ => ("ok " ++ print_val [] 200 (WL l), Some st)
          | RErr => ("err P", Some st)
          | RUnm => ("unm 00", None)
          end
      | None => ("bad", None)
      end
  | "wstr" :: t :: _ =>
      match str_arg t with
      | Some text =>
          match read_sexpr text with
          | ROk v _ =>
              match wal_str0 v with
              | Some txt => ("ok S" ++ hex_of_string txt, Some st)
              | None => ("unm 01", None)
              end
          | RErr => ("err P", Some st)
          | RUnm => ("unm 00", None)
          end
      | None => ("bad", None)
      end
  | "rt" :: t :: _ =>
      (* read, print, read again *)
      match str_arg t with
      | Some text =>
          match read_sexpr text with
          | ROk v _ =>
              match wal_str0 v with
              | Some txt =>
                  match read_sexpr txt with
                  | ROk v2 _ =>
                      if String.eqb (print_val [] 200 v) (print_val [] 200 v2) then ("ok same", Some st)
                      else ("ok DIFF", Some st)
                  | RErr => ("ok DIFF", Some st)
                  | RUnm => ("unm 02", None)
                  end
              | None => ("unm 01", None)
              end
          | RErr => ("err P", Some st)
          | RUnm => ("unm 00", None)
          end
      | None => ("bad", None)
      end
  | "wawk" :: t :: r =>
      (* t: trace path; r: the parsed statements ( [conds] action ) ... as one list *)
      match str_arg t, parse_val PF r with
      | Some path, Some (VList _ items, _) =>
          let stmts := map_opt (fun it => match it with
                                          | VList _ [VList _ conds; action] => Some (conds, action)
                                          | _ => None
                                          end) items in
          match stmts with
          | None => ("bad", None)
          | Some p =>
              match wawk_emit p with
              | None => ("unm 03", None)
              | Some forms =>
                  match wawk_run path p st with
                  | Ok _ st' => ("ok S" ++ hex_of_string (output_of st') ++ " o-same " ++ print_val [] 200 (PL forms), Some st')
                  | Er e st' => ("err " ++ err_token e ++ " out=" ++ hex_of_string (output_of st'), None)
                  | Unm w => ("unm " ++ hex_of_string w, None)
                  | Fuel => ("fuel", None)
                  end
              end
          end
      | _, _ => ("bad", None)
      end
  | "wawkx" :: t :: _ =>
      (* one WAWK expression text: lexer, parser of the expression fragment, TreeToWal *)
      match str_arg t with
      | Some text =>
          match wawk_expr text with
          | XOk v => ("ok " ++ print_val [] 200 v, Some st)
          | XErr => ("err P", Some st)
          | XUnm => ("unm 00", None)
          end
      | None => ("bad", None)
      end
  | "csv" :: t :: _ =>
      match str_arg t with
      | Some text =>
          match csv_parse "T" "f.csv" text with
          | POk tr => ("ok " ++ dump_trace tr, Some st)
          | PErr e => ("err " ++ err_token e, None)
          | PUnmodelled => ("unm 00", None)
          end
      | None => ("bad", None)
      end
  | _ => ("bad", None)
  end.

(** split a token list at ";" *)
Fixpoint split_cmds (toks : list string) (cur : list string) : list (list string) :=
  match toks with
  | [] => match cur with [] => [] | _ => [rev cur] end
  | t :: r => if String.eqb t ";" then rev cur :: split_cmds r [] else split_cmds r (t :: cur)
  end.

Definition final_obs (st : state) : string :=
  "out=" ++ hex_of_string (output_of st)
  ++ " idx=" ++ sconcat (map (fun p => hex_of_string (fst p) ++ ":" ++ dec_of_Z (snd p) ++ ",")
                             (cont_indices (st_cont st)))
  ++ " scope=" ++ hex_of_string (st_scope st)
  ++ " group=" ++ hex_of_string (st_group st)
  ++ " stack=" ++ dec_of_Z (zlen (c_stack (st_cont st)))
  ++ " cur=" ++ (if Nat.eqb (st_cur st) global_id then "g" else "n")
  ++ " n=" ++ dec_of_Z (c_ntraces (st_cont st)).

(** [try <cmd>]: an expected failure does not end the session; the session goes on
    from the state the failing command left behind *)
Definition run_try (toks : list string) (st : state) : string * option state :=
  match toks with
  | "load" :: p :: t :: _ =>
      match str_arg p, str_arg t with
      | Some path, Some tid =>
          match wal_load path tid st with
          | Er e st' => ("err " ++ err_token e, Some st')
          | r => render pr_unit r
          end
      | _, _ => ("bad", None)
      end
  | "eval" :: fl :: r =>
      match parse_val PF r with
      | Some (e, r') =>
          match parse_kw 1000 r' with
          | Some kw =>
              match wal_eval_with (flags_of fl) e kw st with
              | Er e' st' => ("err " ++ err_token e', Some st')
              | res => render pr_val res
              end
          | None => ("bad", None)
          end
      | None => ("bad", None)
      end
  | _ => ("bad", None)
  end.

Fixpoint run_cmds (cmds : list (list string)) (st : state) : string :=
  match cmds with
  | [] => "END " ++ final_obs st
  | c :: r =>
      match (match c with "try" :: c' => run_try c' st | _ => run_cmd c st end) with
      | (s, Some st') => s ++ " ;; " ++ run_cmds r st'
      | (s, None) => s ++ " ;; STOP"
      end
  end.

Definition run_line (line : string) : string :=
  if init_ok then run_cmds (split_cmds (tokens line) []) init_state
  else "INIT-FAILED".
