(** Proto.v — the line protocol between the harness and the model: values
    and observations as space-separated tokens.  Parsing and printing are
    done here, in Gallina, so that the OCaml driver contains no logic.

    value tokens:   N | B0 | B1 | I<dec> | F<16 hex> | S<hex bytes> | Y<hex> (symbol)
                    R<k>:<hex> (resolved symbol) | O<hex> (operator text)
                    ( v* ) WList | [ v* ] list | U v | V v
    output only:    C closure | M macro | A ( S<key> v ... ) array          *)
From WalModel Require Export Api.

Definition hex_digit (n : Z) : ascii := digit_char n.

Fixpoint hex_of_string (s : string) : string :=
  match s with
  | EmptyString => EmptyString
  | String c r =>
      let n := ascii_Z c in
      String (hex_digit (n / 16)) (String (hex_digit (n mod 16)) (hex_of_string r))
  end.

Fixpoint string_of_hex (s : string) : option string :=
  match s with
  | EmptyString => Some EmptyString
  | String a (String b r) =>
      match digit_val a, digit_val b, string_of_hex r with
      | Some x, Some y, Some rest =>
          if (x <? 16) && (y <? 16) then Some (String (ascii_of_N (Z.to_N (x * 16 + y))) rest) else None
      | _, _, _ => None
      end
  | _ => None
  end.

Definition tokens (line : string) : list string :=
  filter (fun t => negb (String.eqb t "")) (ssplit_char " "%char line).

Definition parse_Z (s : string) : option Z :=
  match s with
  | String "-"%char r => match digits_val 10 r with Some z => Some (- z) | None => None end
  | _ => digits_val 10 s
  end.

Fixpoint parse_val (fuel : nat) (toks : list string) : option (val * list string) :=
  match fuel with
  | O => None
  | S f =>
      match toks with
      | [] => None
      | t :: r =>
          match t with
          | "N" => Some (VNone, r)
          | "B0" => Some (VBool false, r)
          | "B1" => Some (VBool true, r)
          | "(" => match parse_vals f r ")" with
                   | Some (l, r') => Some (VList true l, r')
                   | None => None
                   end
          | "[" => match parse_vals f r "]" with
                   | Some (l, r') => Some (VList false l, r')
                   | None => None
                   end
          | "U" => match parse_val f r with Some (v, r') => Some (VUnq v, r') | None => None end
          | "V" => match parse_val f r with Some (v, r') => Some (VUnqS v, r') | None => None end
          | String "I"%char body =>
              match parse_Z body with Some z => Some (VInt z, r) | None => None end
          | String "F"%char body =>
              match digits_val 16 body with Some z => Some (VFloat (f_of_bits z), r) | None => None end
          | String "S"%char body =>
              match string_of_hex body with Some s => Some (VStr s, r) | None => None end
          | String "Y"%char body =>
              match string_of_hex body with Some s => Some (VSym s None, r) | None => None end
          | String "R"%char body =>
              match ssplit_first ":"%char body with
              | Some (k, h) =>
                  match digits_val 10 k, string_of_hex h with
                  | Some kz, Some s => Some (VSym s (Some (Z.to_nat kz)), r)
                  | _, _ => None
                  end
              | None => None
              end
          | String "O"%char body =>
              match string_of_hex body with
              | Some s => match op_of_name s with Some o => Some (VOp o, r) | None => None end
              | None => None
              end
          | _ => None
          end
      end
  end
with parse_vals (fuel : nat) (toks : list string) (close : string) : option (list val * list string) :=
  match fuel with
  | O => None
  | S f =>
      match toks with
      | [] => None
      | t :: r =>
          if String.eqb t close then Some ([], r)
          else match parse_val f toks with
               | Some (v, r1) =>
                   match parse_vals f r1 close with
                   | Some (vs, r2) => Some (v :: vs, r2)
                   | None => None
                   end
               | None => None
               end
      end
  end.

(** printing *)
Definition hex64 (z : Z) : string :=
  let d := numeral 16 z in zeros (Z.to_nat (16 - slen d)) ++ d.

Section Print.
  Variable arrays : list (list (string * val)).
  (** [fuel] bounds the nesting depth (lists and arrays); "?" when exhausted *)
  Fixpoint print_val (fuel : nat) (v : val) {struct fuel} : string :=
    match fuel with
    | O => "?"
    | S f =>
        match v with
        | VNone => "N"
        | VBool b => if b then "B1" else "B0"
        | VInt z => "I" ++ dec_of_Z z
        | VFloat x => "F" ++ hex64 (bits_of_f x)
        | VStr s => "S" ++ hex_of_string s
        | VSym n None => "Y" ++ hex_of_string n
        | VSym n (Some k) => "R" ++ dec_of_Z (Z.of_nat k) ++ ":" ++ hex_of_string n
        | VOp o => "O" ++ hex_of_string (op_name o)
        | VList true l => "( " ++ sconcat (map (fun x => print_val f x ++ " ") l) ++ ")"
        | VList false l => "[ " ++ sconcat (map (fun x => print_val f x ++ " ") l) ++ "]"
        | VUnq x => "U " ++ print_val f x
        | VUnqS x => "V " ++ print_val f x
        | VClos _ _ _ _ => "C"
        | VMacro _ _ _ => "M"
        | VArr r =>
            match nth_error arrays r with
            | None => "A?"
            | Some items =>
                "A ( " ++ sconcat (map (fun kv => "S" ++ hex_of_string (fst kv) ++ " "
                                               ++ print_val f (snd kv) ++ " ") items) ++ ")"
            end
        end
    end.
End Print.
