(** Trace.v — one trace and the trace container, as coded in
    wal/trace/trace.py and wal/trace/container.py (C02 C12 C19). *)
From WalModel Require Export Arith.

(** Outcome classes (messages are never compared) *)
Inductive err : Set :=
  | EEval            (* AssertionError -> WalEvalError *)
  | EOther           (* any other Python exception *)
  | EParse           (* reader ParseError *)
  | EExit (code : Z). (* SystemExit *)

Record vsig : Type := mkVsig {
  vs_body : list val;            (* body forms, references already rewritten *)
  vs_cache : list (Z * val)      (* timestamp -> cached value *)
}.

Record trace : Type := mkTrace {
  tr_tid : string;
  tr_file : string;
  tr_index : Z;
  tr_max : Z;
  tr_all_ts : list Z;                       (* all_timestamps *)
  tr_ts : list Z;                           (* timestamps: position = index *)
  tr_lookup : option (list Z);              (* index translation after sample-at *)
  tr_raw : list string;                     (* rawsignals, declaration order *)
  tr_data : list (string * list string);    (* name -> value text per original index *)
  tr_scopes : list string;
  tr_widths : list (string * Z);
  tr_virt : list (string * vsig)            (* virtual signals, insertion order *)
}.

Definition special_signals : list string :=
  ["SIGNALS"; "SIGNALS-NO-ALIAS"; "VIRTUAL-SIGNALS"; "LOCAL-SIGNALS"; "INDEX";
   "MAX-INDEX"; "TS"; "TRACE-NAME"; "TRACE-FILE"; "SCOPES"; "LOCAL-SCOPES"].

Definition set_index (t : trace) (i : Z) : trace :=
  mkTrace (tr_tid t) (tr_file t) i (tr_max t) (tr_all_ts t) (tr_ts t) (tr_lookup t)
          (tr_raw t) (tr_data t) (tr_scopes t) (tr_widths t) (tr_virt t).

Definition set_virt (t : trace) (v : list (string * vsig)) : trace :=
  mkTrace (tr_tid t) (tr_file t) (tr_index t) (tr_max t) (tr_all_ts t) (tr_ts t) (tr_lookup t)
          (tr_raw t) (tr_data t) (tr_scopes t) (tr_widths t) v.

Definition set_max (t : trace) (m : Z) : trace :=
  mkTrace (tr_tid t) (tr_file t) (tr_index t) m (tr_all_ts t) (tr_ts t) (tr_lookup t)
          (tr_raw t) (tr_data t) (tr_scopes t) (tr_widths t) (tr_virt t).

(** Trace.step: [None] = moved, [Some tid] = would leave 0..max, not moved *)
Definition trace_step (t : trace) (n : Z) : trace * option string :=
  let r := tr_index t + n in
  if (r <? 0) || (tr_max t <? r) then (t, Some (tr_tid t))
  else (set_index t r, None).

(** Trace.set_max_index *)
Definition trace_trim (t : trace) (m : Z) : trace := set_max t (Z.min m (tr_max t)).

(** [set_sampling_points]: [None] when an index is outside all_timestamps
    (Python: IndexError; negative indices wrap in Python and are reported
    unmodelled by the caller). *)
Section MapOpt.
  Context {A B : Type} (f : A -> option B).
  Fixpoint map_opt (l : list A) : option (list B) :=
    match l with
    | [] => Some []
    | x :: r => match f x, map_opt r with
                | Some y, Some ys => Some (y :: ys)
                | _, _ => None
                end
    end.
End MapOpt.

Definition clear_caches (v : list (string * vsig)) : list (string * vsig) :=
  map (fun p => (fst p, mkVsig (vs_body (snd p)) [])) v.

(** one sample per distinct selected index, in list order; lookup table and
    timestamps are built from the same list; virtual-signal caches are dropped *)
Definition trace_sample (t : trace) (idx : list Z) : option trace :=
  let idx' := dedup_Z idx [] in
  match map_opt (znth (tr_all_ts t)) idx' with
  | None => None
  | Some ts =>
      Some (mkTrace (tr_tid t) (tr_file t) 0 (zlen ts - 1) (tr_all_ts t) ts (Some idx')
                    (tr_raw t) (tr_data t) (tr_scopes t) (tr_widths t) (clear_caches (tr_virt t)))
  end.

(** access_signal_data(name, index): raw value text.
    Errors: unknown name -> KeyError, bad position -> KeyError/IndexError *)
Definition access_data (t : trace) (name : string) (i : Z) : option string :=
  match alookup name (tr_data t) with
  | None => None
  | Some col =>
      match tr_lookup t with
      | Some ((_ :: _) as lk) =>
          match znth lk i with
          | Some j => znth col j      (* negative j wraps in Python: caller excludes *)
          | None => None
          end
      | _ => znth col i
      end
  end.

Definition value_of_text (bits : string) : val :=
  match to_value_text bits with
  | Some z => VInt z
  | None => VStr bits
  end.

Definition all_signal_names (t : trace) : list string :=
  tr_raw t +++ map fst (tr_virt t).

Definition trace_has (t : trace) (name : string) : bool :=
  smem name special_signals || smem name (tr_raw t) || amem name (tr_virt t).

Definition strs (l : list string) : val := PL (map VStr l).

Definition has_dot (s : string) : bool := scontains_char "."%char s.

Definition in_scope_sig (scope : string) (s : string) : bool :=
  sprefix (scope ++ ".") s && negb (has_dot (sdrop (Z.to_nat (slen scope + 1)) s)).

(** result of reading a name from one trace *)
Inductive sigres : Type :=
  | SVal (v : val)
  | SVirtual (name : string)   (* evaluate the virtual signal [name] of this trace *)
  | SErr (e : err)
  | SUnmodelled.

Definition trace_signal_value (ntraces : Z) (t : trace) (name : string) (scope : string) : sigres :=
  let idx := tr_index t in
  let pre l := if 1 <? ntraces then map (fun s => tr_tid t ++ "^" ++ s) l else l in
  if (0 <=? idx) && (idx <=? tr_max t) then
    if smem name special_signals then
      if String.eqb name "SIGNALS" then SVal (strs (pre (all_signal_names t)))
      else if String.eqb name "SIGNALS-NO-ALIAS" then SUnmodelled
      else if String.eqb name "VIRTUAL-SIGNALS" then SVal (strs (pre (map fst (tr_virt t))))
      else if String.eqb name "LOCAL-SIGNALS" then
        if String.eqb scope "" then SVal (strs (filter (fun s => negb (has_dot s)) (tr_raw t)))
        else SVal (strs (dedup_str (filter (in_scope_sig scope) (all_signal_names t)) []))
      else if String.eqb name "INDEX" then SVal (VInt idx)
      else if String.eqb name "MAX-INDEX" then SVal (VInt (tr_max t))
      else if String.eqb name "TS" then
        match znth (tr_ts t) idx with Some ts => SVal (VInt ts) | None => SErr EOther end
      else if String.eqb name "TRACE-NAME" then SVal (VStr (tr_tid t))
      else if String.eqb name "TRACE-FILE" then SVal (VStr (tr_file t))
      else if String.eqb name "LOCAL-SCOPES" then
        let sc := if String.eqb scope "" then scope else scope ++ "." in
        SVal (strs (filter (fun s => sprefix sc s &&
                                     negb (has_dot (sdrop (Z.to_nat (slen sc + 1)) s)))
                           (tr_scopes t)))
      else (* SCOPES *) SVal (strs (tr_scopes t))
    else if amem name (tr_virt t) then SVirtual name
    else match access_data t name idx with
         | Some bits => SVal (value_of_text bits)
         | None => SErr EOther
         end
  else if tr_max t <=? idx then
    match access_data t name (tr_max t) with
    | Some bits => SVal (VStr bits)     (* raw text: this branch does not convert *)
    | None => SErr EOther
    end
  else SErr EOther.

(** * Container *)
Record container : Type := mkCont {
  c_traces : list (string * trace);     (* dict tid -> trace, insertion order *)
  c_ntraces : Z;
  c_stack : list (list (string * Z))    (* index_stack; head = top *)
}.

Definition empty_container : container := mkCont [] 0 [].

Definition with_traces (c : container) (ts : list (string * trace)) : container :=
  mkCont ts (c_ntraces c) (c_stack c).

Definition has_sep (s : string) : bool := scontains_char "^"%char s.

(** which trace does [name] address?  mirrors the three-way test used by
    signal_value / signal_width / contains *)
Inductive addr : Type :=
  | AOne (t : trace) (signal : string)
  | ABadTid                                (* assertion: no trace with that tid *)
  | ANone.                                 (* neither rule applies *)

Definition address (c : container) (name : string) : addr :=
  if (c_ntraces c =? 1) && negb (has_sep name) then
    match c_traces c with
    | (_, t) :: _ => AOne t name
    | [] => ANone  (* n_traces = 1 with no trace: IndexError; treated by callers as error *)
    end
  else match ssplit_first "^"%char name with
       | Some (tid, sig) =>
           match alookup tid (c_traces c) with
           | Some t => AOne t sig
           | None => ABadTid
           end
       | None => ANone
       end.

Definition cont_contains (c : container) (name : string) : option bool :=
  match address c name with
  | AOne t sig => Some (trace_has t sig)
  | ABadTid => None
  | ANone =>
      if (c_ntraces c =? 1) && negb (has_sep name) then None else Some false
  end.

Definition cont_signal_value (c : container) (name scope : string) : sigres * option trace :=
  match address c name with
  | AOne t sig => (trace_signal_value (zlen (c_traces c)) t sig scope, Some t)
  | ABadTid => (SErr EEval, None)
  | ANone => (SErr EOther, None)
  end.

Definition cont_signal_width (c : container) (name : string) : option (option Z) :=
  match address c name with
  | AOne t sig => Some (alookup sig (tr_widths t))
  | ABadTid => None
  | ANone => Some None
  end.

Fixpoint step_all (ts : list (string * trace)) (n : Z) : list (string * trace) * list string :=
  match ts with
  | [] => ([], [])
  | (tid, t) :: r =>
      let '(t', e) := trace_step t n in
      let '(r', es) := step_all r n in
      ((tid, t') :: r', match e with Some x => x :: es | None => es end)
  end.

(** container.step(steps, tid): tid "" or None = all traces.
    Result: new container and the list of traces that did not move;
    [None] = assertion (unknown tid). *)
Definition cont_step (c : container) (n : Z) (tid : option string) : option (container * list string) :=
  match tid with
  | Some id =>
      if String.eqb id "" then
        let '(ts, e) := step_all (c_traces c) n in Some (with_traces c ts, e)
      else
        match alookup id (c_traces c) with
        | None => None
        | Some t =>
            let '(t', e) := trace_step t n in
            Some (with_traces c (aset id t' (c_traces c)),
                  match e with Some x => [x] | None => [] end)
        end
  | None =>
      let '(ts, e) := step_all (c_traces c) n in Some (with_traces c ts, e)
  end.

Definition cont_indices (c : container) : list (string * Z) :=
  map (fun p => (tr_tid (snd p), tr_index (snd p))) (c_traces c).

Definition cont_store (c : container) : container :=
  mkCont (c_traces c) (c_ntraces c) (cont_indices c :: c_stack c).

(** restore: set each saved tid's index; a saved tid that is no longer loaded
    is a KeyError ([None]) *)
Fixpoint restore_list (ts : list (string * trace)) (saved : list (string * Z)) : option (list (string * trace)) :=
  match saved with
  | [] => Some ts
  | (tid, i) :: r =>
      match alookup tid ts with
      | Some t => restore_list (aset tid (set_index t i) ts) r
      | None => None
      end
  end.

Definition cont_restore (c : container) : option container :=
  match c_stack c with
  | [] => Some c
  | top :: rest =>
      match restore_list (c_traces c) top with
      | Some ts => Some (mkCont ts (c_ntraces c) rest)
      | None => None
      end
  end.

(** container.scopes / signals (as fixed: tid^name for several traces) *)
Definition cont_scopes (c : container) : list string :=
  if 1 <? zlen (c_traces c) then
    flat_map (fun p => map (fun s => tr_tid (snd p) ++ "^" ++ s) (tr_scopes (snd p))) (c_traces c)
  else flat_map (fun p => tr_scopes (snd p)) (c_traces c).

Definition cont_signals (c : container) : list string :=
  if zlen (c_traces c) =? 1 then
    flat_map (fun p => tr_raw (snd p)) (c_traces c)
  else flat_map (fun p => map (fun s => tr_tid (snd p) ++ "^" ++ s) (tr_raw (snd p))) (c_traces c).

Definition cont_unload (c : container) (tid : string) : container :=
  if amem tid (c_traces c) then mkCont (adel tid (c_traces c)) (c_ntraces c - 1) (c_stack c)
  else c.

(** put a freshly parsed trace under [tid] (the success path of load) *)
Definition cont_add (c : container) (tid : string) (t : trace) : container :=
  mkCont (aset tid t (c_traces c)) (c_ntraces c + 1) (c_stack c).
