(** Vcd.v — wal/trace/vcd.py TraceVcd.parse as coded, plus name
    normalisation (shared with csvtrace.py). (C01) *)
From WalModel Require Export Trace.

(** * The three regex substitutions, as explicit scanners *)
Fixpoint span_digits (s : string) : string * string :=
  match s with
  | String c r =>
      if is_digit c then let '(d, rest) := span_digits r in (String c d, rest)
      else (EmptyString, s)
  | EmptyString => (EmptyString, EmptyString)
  end.

(* re.sub(r'\[[0-9]+:[0-9]+\]', '', s) *)
Fixpoint drop_ranges (fuel : nat) (s : string) : string :=
  match fuel with
  | O => s
  | S f =>
      match s with
      | EmptyString => EmptyString
      | String c r =>
          if Ascii.eqb c "["%char then
            let '(d1, r1) := span_digits r in
            match d1, r1 with
            | String _ _, String c1 r2 =>
                if Ascii.eqb c1 ":"%char then
                  let '(d2, r3) := span_digits r2 in
                  match d2, r3 with
                  | String _ _, String c2 r4 =>
                      if Ascii.eqb c2 "]"%char then drop_ranges f r4
                      else String c (drop_ranges f r)
                  | _, _ => String c (drop_ranges f r)
                  end
                else String c (drop_ranges f r)
            | _, _ => String c (drop_ranges f r)
            end
          else String c (drop_ranges f r)
      end
  end.

(* re.sub(open ([0-9]+) close, r'<\1>', s) *)
Fixpoint angle_index (op cl : ascii) (fuel : nat) (s : string) : string :=
  match fuel with
  | O => s
  | S f =>
      match s with
      | EmptyString => EmptyString
      | String c r =>
          if Ascii.eqb c op then
            let '(d, r1) := span_digits r in
            match d, r1 with
            | String _ _, String c1 r2 =>
                if Ascii.eqb c1 cl then
                  String "<"%char (d ++ String ">"%char (angle_index op cl f r2))
                else String c (angle_index op cl f r)
            | _, _ => String c (angle_index op cl f r)
            end
          else String c (angle_index op cl f r)
      end
  end.

Definition sub_brackets (s : string) : string :=
  let s1 := angle_index "["%char "]"%char (S (String.length s)) s in
  angle_index "("%char ")"%char (S (String.length s1)) s1.

Definition norm_scope_name (s : string) : string := sub_brackets s.
Definition norm_var_name (s : string) : string :=
  sub_brackets (drop_ranges (S (String.length s)) s).

(** * Header *)
Inductive presult (A : Type) : Type :=
  | POk (a : A)
  | PErr (e : err)
  | PUnmodelled.
Arguments POk {A}. Arguments PErr {A}. Arguments PUnmodelled {A}.

Record hdr : Type := mkHdr {
  h_scope : list string;                 (* current scope stack, innermost first *)
  h_scopes : list string;                (* declared scopes, reversed *)
  h_raw : list string;                   (* rawsignals, reversed *)
  h_ids : list string;                   (* all_ids (as a duplicate-free list) *)
  h_name2id : list (string * string);
  h_width : list (string * Z)            (* signalinfo[id].width *)
}.

Definition hdr0 : hdr := mkHdr [] [] [] [] [] [].

Fixpoint skip_to_end (toks : list string) : option (list string) :=
  match toks with
  | [] => None
  | t :: r => if String.eqb t "$end" then Some r else skip_to_end r
  end.

Definition first_char_is (c : ascii) (s : string) : bool :=
  match s with String a _ => Ascii.eqb a c | EmptyString => false end.

Definition scope_path (h : hdr) : string := sjoin "." (rev (h_scope h)).

(** returns the header record and the tokens of the dump section *)
Fixpoint parse_header (fuel : nat) (toks : list string) (h : hdr) : presult (hdr * list string) :=
  match fuel with
  | O => PUnmodelled
  | S f =>
      match toks with
      | [] => PErr EOther                                   (* tokens[i]: IndexError *)
      | t :: r =>
          if String.eqb t "$scope" then
            match r with
            | _ :: nm :: r2 =>
                let sc := norm_scope_name nm :: h_scope h in
                let h' := mkHdr sc (sjoin "." (rev sc) :: h_scopes h) (h_raw h) (h_ids h)
                                (h_name2id h) (h_width h) in
                match r2 with
                | _ :: r3 => parse_header f r3 h'
                | [] => PErr EOther
                end
            | _ => PErr EOther
            end
          else if String.eqb t "$var" then
            match r with
            | _kind :: width :: id :: nm :: t5 :: r5 =>
                match py_int 10 width with
                | IntOk w =>
                    let name := norm_var_name nm in
                    let full := match h_scope h with
                                | [] => name
                                | _ => scope_path h ++ "." ++ name
                                end in
                    let h' := mkHdr (h_scope h) (h_scopes h) (full :: h_raw h)
                                    (if smem id (h_ids h) then h_ids h else h_ids h +++ [id])
                                    (aset full id (h_name2id h)) (aset id w (h_width h)) in
                    if String.eqb t5 "$end" then parse_header f r5 h'
                    else if first_char_is "["%char t5 then
                      match r5 with
                      | _ :: r6 => parse_header f r6 h'
                      | [] => PErr EOther
                      end
                    else PErr EEval                          (* assert False, 'VCD error' *)
                | IntBad => PErr EOther
                | IntUnmodelled => PUnmodelled
                end
            | _ => PErr EOther
            end
          else if String.eqb t "$upscope" then
            match h_scope h, r with
            | _ :: sc, _ :: r2 =>
                parse_header f r2 (mkHdr sc (h_scopes h) (h_raw h) (h_ids h) (h_name2id h) (h_width h))
            | _, _ => PErr EOther
            end
          else if String.eqb t "$enddefinitions" then
            match r with
            | _ :: r2 => POk (h, r2)
            | [] => POk (h, [])
            end
          else if String.eqb t "$timescale" then
            match r with
            | _ :: t2 :: t3 :: r3 =>
                if String.eqb t3 "$end" then parse_header f r3 h
                else if String.eqb t2 "$end" then parse_header f (t3 :: r3) h
                else PUnmodelled                              (* the code loops forever *)
            | _ => PErr EOther
            end
          else if String.eqb t "$comment" || String.eqb t "$version" || String.eqb t "$date" then
            match skip_to_end toks with
            | Some r' => parse_header f r' h
            | None => PErr EOther
            end
          else parse_header f r h
      end
  end.

(** * Dump section.  [cols]: per id, the value texts so far, newest first;
    the initial 'x' row is the last element and is dropped at the end. *)
Definition push_row (cols : list (string * list string)) : list (string * list string) :=
  map (fun p => (fst p, match snd p with v :: _ => v :: snd p | [] => [] end)) cols.

Definition set_last (cols : list (string * list string)) (id v : string) : list (string * list string) :=
  match alookup id cols with
  | Some (_ :: older) => aset id (v :: older) cols
  | _ => cols
  end.

Definition is_scalar_char (c : ascii) : bool :=
  let n := ascii_Z c in
  (n =? 48) || (n =? 49) || (n =? 120) || (n =? 122) || (n =? 88) || (n =? 90).

Fixpoint parse_dump (fuel : nat) (toks : list string) (cols : list (string * list string))
         (ts : list Z) : presult (list (string * list string) * list Z) :=
  match fuel with
  | O => PUnmodelled
  | S f =>
      match toks with
      | [] => POk (cols, ts)
      | t :: r =>
          match t with
          | EmptyString => PErr EOther
          | String c body =>
              if Ascii.eqb c "#"%char then
                match py_int 10 body with
                | IntOk time => parse_dump f r (push_row cols) (time :: ts)
                | IntBad => PErr EOther
                | IntUnmodelled => PUnmodelled
                end
              else if Ascii.eqb c "b"%char then
                match r with
                | id :: r2 => parse_dump f r2 (set_last cols id body) ts
                | [] => PErr EOther
                end
              else if is_scalar_char c then
                parse_dump f r (set_last cols body (String c EmptyString)) ts
              else if String.eqb t "$comment" then
                match skip_to_end toks with
                | Some r' => parse_dump f r' cols ts
                | None => PErr EOther
                end
              else parse_dump f r cols ts
          end
      end
  end.

Definition finish_col (col : list string) : list string :=
  (* newest first, initial row last -> oldest first without the initial row *)
  match rev col with _ :: r => r | [] => [] end.

Definition vcd_parse (tid file text : string) : presult trace :=
  let toks := py_split text in
  let n := S (List.length toks) in
  let hd := match toks with
            | [] => POk (hdr0, [])
            | _ => parse_header n toks hdr0
            end in
  match hd with
  | PErr e => PErr e
  | PUnmodelled => PUnmodelled
  | POk (h, rest) =>
      match parse_dump n rest (map (fun id => (id, ["x"])) (h_ids h)) [] with
      | PErr e => PErr e
      | PUnmodelled => PUnmodelled
      | POk (cols, ts_rev) =>
          let ts := rev ts_rev in
          let raw := rev (h_raw h) in
          let data := fold_left (fun acc nm =>
                         match alookup nm (h_name2id h) with
                         | Some id => match alookup id cols with
                                      | Some col => aset nm (finish_col col) acc
                                      | None => acc
                                      end
                         | None => acc
                         end) raw [] in
          let widths := fold_left (fun acc nm =>
                         match alookup nm (h_name2id h) with
                         | Some id => match alookup id (h_width h) with
                                      | Some w => aset nm w acc
                                      | None => acc
                                      end
                         | None => acc
                         end) raw [] in
          POk (mkTrace tid file 0 (zlen ts - 1) ts ts None raw data
                       (rev (h_scopes h)) widths [])
      end
  end.
