
val xorb : bool -> bool -> bool

val negb : bool -> bool

type nat =
| O
| S of nat

type ('a, 'b) sum =
| Inl of 'a
| Inr of 'b

val fst : ('a1 * 'a2) -> 'a1

val snd : ('a1 * 'a2) -> 'a2

val length : 'a1 list -> nat

val app : 'a1 list -> 'a1 list -> 'a1 list

type comparison =
| Eq
| Lt
| Gt

val compOpp : comparison -> comparison

val add : nat -> nat -> nat

val mul : nat -> nat -> nat

val sub : nat -> nat -> nat

val eqb : bool -> bool -> bool

type positive =
| XI of positive
| XO of positive
| XH

type n =
| N0
| Npos of positive

type z =
| Z0
| Zpos of positive
| Zneg of positive

module Nat :
 sig
  val eqb : nat -> nat -> bool

  val leb : nat -> nat -> bool

  val ltb : nat -> nat -> bool

  val max : nat -> nat -> nat
 end

module Pos :
 sig
  val succ : positive -> positive

  val add : positive -> positive -> positive

  val add_carry : positive -> positive -> positive

  val pred_double : positive -> positive

  val pred_N : positive -> n

  val mul : positive -> positive -> positive

  val iter : ('a1 -> 'a1) -> 'a1 -> positive -> 'a1

  val div2 : positive -> positive

  val div2_up : positive -> positive

  val size : positive -> positive

  val compare_cont : comparison -> positive -> positive -> comparison

  val compare : positive -> positive -> comparison

  val eqb : positive -> positive -> bool

  val coq_Nsucc_double : n -> n

  val coq_Ndouble : n -> n

  val coq_lor : positive -> positive -> positive

  val coq_land : positive -> positive -> n

  val ldiff : positive -> positive -> n

  val coq_lxor : positive -> positive -> n

  val iter_op : ('a1 -> 'a1 -> 'a1) -> positive -> 'a1 -> 'a1

  val to_nat : positive -> nat

  val of_succ_nat : nat -> positive
 end

module N :
 sig
  val succ_pos : n -> positive

  val add : n -> n -> n

  val mul : n -> n -> n

  val coq_lor : n -> n -> n

  val coq_land : n -> n -> n

  val ldiff : n -> n -> n

  val coq_lxor : n -> n -> n

  val of_nat : nat -> n
 end

val zero : char

val one : char

val shift : bool -> char -> char

val ascii_of_pos : positive -> char

val ascii_of_N : n -> char

val ascii_of_nat : nat -> char

val n_of_digits : bool list -> n

val n_of_ascii : char -> n

val tl : 'a1 list -> 'a1 list

val nth_error : 'a1 list -> nat -> 'a1 option

val removelast : 'a1 list -> 'a1 list

val rev : 'a1 list -> 'a1 list

val concat : 'a1 list list -> 'a1 list

val map : ('a1 -> 'a2) -> 'a1 list -> 'a2 list

val flat_map : ('a1 -> 'a2 list) -> 'a1 list -> 'a2 list

val fold_left : ('a1 -> 'a2 -> 'a1) -> 'a2 list -> 'a1 -> 'a1

val fold_right : ('a2 -> 'a1 -> 'a1) -> 'a1 -> 'a2 list -> 'a1

val existsb : ('a1 -> bool) -> 'a1 list -> bool

val forallb : ('a1 -> bool) -> 'a1 list -> bool

val filter : ('a1 -> bool) -> 'a1 list -> 'a1 list

val combine : 'a1 list -> 'a2 list -> ('a1 * 'a2) list

val firstn : nat -> 'a1 list -> 'a1 list

val skipn : nat -> 'a1 list -> 'a1 list

module Z :
 sig
  val double : z -> z

  val succ_double : z -> z

  val pred_double : z -> z

  val pos_sub : positive -> positive -> z

  val add : z -> z -> z

  val opp : z -> z

  val sub : z -> z -> z

  val mul : z -> z -> z

  val pow_pos : z -> positive -> z

  val pow : z -> z -> z

  val compare : z -> z -> comparison

  val leb : z -> z -> bool

  val ltb : z -> z -> bool

  val eqb : z -> z -> bool

  val max : z -> z -> z

  val min : z -> z -> z

  val abs : z -> z

  val to_nat : z -> nat

  val to_N : z -> n

  val of_nat : nat -> z

  val of_N : n -> z

  val pos_div_eucl : positive -> z -> z * z

  val div_eucl : z -> z -> z * z

  val div : z -> z -> z

  val modulo : z -> z -> z

  val even : z -> bool

  val odd : z -> bool

  val div2 : z -> z

  val log2 : z -> z

  val shiftl : z -> z -> z

  val shiftr : z -> z -> z

  val coq_lor : z -> z -> z

  val coq_land : z -> z -> z

  val coq_lxor : z -> z -> z
 end

val zeq_bool : z -> z -> bool

val eqb0 : char list -> char list -> bool

val append : char list -> char list -> char list

val length0 : char list -> nat

val string_of_list_ascii : char list -> char list

val list_ascii_of_string : char list -> char list

val shift_pos : positive -> positive -> positive

val ch : nat -> char

val ascii_Z : char -> z

val is_digit : char -> bool

val is_lower : char -> bool

val is_upper : char -> bool

val is_alpha : char -> bool

val is_pyspace : char -> bool

val slen : char list -> z

val srev_app : char list -> char list -> char list

val srev : char list -> char list

val sconcat : char list list -> char list

val sjoin : char list -> char list list -> char list

val sprefix : char list -> char list -> bool

val sdrop : nat -> char list -> char list

val stake : nat -> char list -> char list

val scontains_char : char -> char list -> bool

val ssplit_first : char -> char list -> (char list * char list) option

val ssplit_char : char -> char list -> char list list

val ssuffix : char list -> char list -> bool

val srfind_aux : char -> char list -> z -> z -> z

val srfind : char -> char list -> z

val string_of_list : char list -> char list

val list_of_string : char list -> char list

val sall : (char -> bool) -> char list -> bool

val sany : (char -> bool) -> char list -> bool

val smap : (char -> char) -> char list -> char list

val py_split_aux : char list -> char list -> char list list

val py_split : char list -> char list list

val lstrip : char list -> char list

val rstrip : char list -> char list

val digit_val : char -> z option

val digit_char : z -> char

val digits_val_acc : z -> char list -> z -> z option

val digits_val : z -> char list -> z option

val numeral_fuel : nat -> z -> z -> char list -> char list

val numeral : z -> z -> char list

val dec_of_Z : z -> char list

val alookup : char list -> (char list * 'a1) list -> 'a1 option

val aset :
  char list -> 'a1 -> (char list * 'a1) list -> (char list * 'a1) list

val adel : char list -> (char list * 'a1) list -> (char list * 'a1) list

val amem : char list -> (char list * 'a1) list -> bool

val smem : char list -> char list list -> bool

val dedup_str : char list list -> char list list -> char list list

val zmem : z -> z list -> bool

val dedup_Z : z list -> z list -> z list

val znth : 'a1 list -> z -> 'a1 option

val zlen : 'a1 list -> z

val sltb : char list -> char list -> bool

val insert_sorted : ('a1 -> 'a1 -> bool) -> 'a1 -> 'a1 list -> 'a1 list

val isort : ('a1 -> 'a1 -> bool) -> 'a1 list -> 'a1 list

val last_opt : 'a1 list -> 'a1 option

val zrange_nat : z -> nat -> z list

type spec_float =
| S754_zero of bool
| S754_infinity of bool
| S754_nan
| S754_finite of bool * positive * z

val emin : z -> z -> z

val fexp : z -> z -> z -> z

val digits2_pos : positive -> positive

val zdigits2 : z -> z

val iter_pos : ('a1 -> 'a1) -> positive -> 'a1 -> 'a1

type location =
| Loc_Exact
| Loc_Inexact of comparison

type shr_record = { shr_m : z; shr_r : bool; shr_s : bool }

val shr_1 : shr_record -> shr_record

val loc_of_shr_record : shr_record -> location

val shr_record_of_loc : z -> location -> shr_record

val shr : shr_record -> z -> z -> shr_record * z

val shr_fexp : z -> z -> z -> z -> location -> shr_record * z

val round_nearest_even : z -> location -> z

val binary_round_aux : z -> z -> bool -> z -> z -> location -> spec_float

val shl_align : positive -> z -> z -> positive * z

val binary_round : z -> z -> bool -> positive -> z -> spec_float

val binary_normalize : z -> z -> z -> z -> bool -> spec_float

val sFopp : spec_float -> spec_float

val sFcompare : spec_float -> spec_float -> comparison option

val sFmul : z -> z -> spec_float -> spec_float -> spec_float

val cond_Zopp : bool -> z -> z

val sFadd : z -> z -> spec_float -> spec_float -> spec_float

val sFsub : z -> z -> spec_float -> spec_float -> spec_float

val new_location_even : z -> z -> location

val new_location_odd : z -> z -> location

val new_location : z -> z -> location

val sFdiv_core_binary : z -> z -> z -> z -> z -> z -> (z * z) * location

val sFdiv : z -> z -> spec_float -> spec_float -> spec_float

type op =
| OLoad
| OUnload
| OStep
| ORepl
| OLoadedTraces
| OSignalP
| ORequire
| OEvalFile
| OAdd
| OSub
| OMul
| ODiv
| OExp
| OFloor
| OCeil
| ORound
| OMod
| OBor
| OBand
| OBxor
| ONot
| OEq
| ONeq
| OGt
| OLt
| OGe
| OLe
| OAnd
| OOr
| OPrint
| OPrintf
| OSet
| ODefine
| OLet
| OIf
| OCase
| OWhile
| ODo
| OAlias
| OUnalias
| OQuote
| OQuasiquote
| OUnquote
| OEval
| OParse
| ODefmacro
| OMacroexpand
| OGensym
| OFn
| OGet
| OCall
| OImport
| OList
| OFirst
| OSecond
| OLast
| ORest
| OIn
| OMap
| OMax
| OMin
| OFold
| OLength
| OAverage
| OZip
| ORange
| OType
| OReval
| OArray
| OSeta
| OGeta
| ODela
| OMapa
| OAllScopes
| OInScope
| OResolveScope
| OSetScope
| OUnsetScope
| OGroups
| OInGroup
| OInGroups
| OResolveGroup
| OSlice
| ODefinedP
| OAtomP
| OSymbolP
| OStringP
| OIntP
| OListP
| OConvertBin
| OStringToInt
| OBitsToSint
| OStringToSymbol
| OSymbolToString
| OIntToString
| OFind
| OFindG
| OWhenever
| OFoldSignal
| OSignalWidth
| OSampleAt
| OTrimTrace
| OExit
| ODefsig
| ONewTrace
| ODumpTrace

val op_name : op -> char list

val all_ops : op list

val op_eqb : op -> op -> bool

val op_of_name_in : op list -> char list -> op option

val op_of_name : char list -> op option

type val0 =
| VNone
| VBool of bool
| VInt of z
| VFloat of spec_float
| VStr of char list
| VSym of char list * nat option
| VOp of op
| VList of bool * val0 list
| VUnq of val0
| VUnqS of val0
| VClos of nat * val0 * val0 * char list
| VMacro of char list * val0 * val0
| VArr of nat

val wL : val0 list -> val0

val pL : val0 list -> val0

val prec64 : z

val emax64 : z

val f_add : spec_float -> spec_float -> spec_float

val f_sub : spec_float -> spec_float -> spec_float

val f_mul : spec_float -> spec_float -> spec_float

val f_div : spec_float -> spec_float -> spec_float

val f_of_Z : z -> spec_float

val f_is_zero : spec_float -> bool

val option_nat_eqb : nat option -> nat option -> bool

val f_of_bits : z -> spec_float

val bits_of_f : spec_float -> z

val slice1 : z -> z -> z option

val slice2 : z -> z -> z -> z option

val zeros : nat -> char list

val convert_bin : z -> z -> char list

type int_parse =
| IntOk of z
| IntBad
| IntUnmodelled

val is_int_special : char -> bool

val has_radix_prefix : char list -> bool

val py_int_unsigned : z -> char list -> int_parse

val py_int : z -> char list -> int_parse

val to_value_text : char list -> z option

val flip_bit : char -> char

val bits_to_sint : char list -> int_parse option

val z_pow : z -> z -> z

type err =
| EEval
| EOther
| EParse
| EExit of z

type vsig = { vs_body : val0 list; vs_cache : (z * val0) list }

type trace = { tr_tid : char list; tr_file : char list; tr_index : z;
               tr_max : z; tr_all_ts : z list; tr_ts : z list;
               tr_lookup : z list option; tr_raw : char list list;
               tr_data : (char list * char list list) list;
               tr_scopes : char list list; tr_widths : (char list * z) list;
               tr_virt : (char list * vsig) list }

val special_signals : char list list

val set_index : trace -> z -> trace

val set_virt : trace -> (char list * vsig) list -> trace

val set_max : trace -> z -> trace

val trace_step : trace -> z -> trace * char list option

val trace_trim : trace -> z -> trace

val map_opt : ('a1 -> 'a2 option) -> 'a1 list -> 'a2 list option

val clear_caches : (char list * vsig) list -> (char list * vsig) list

val trace_sample : trace -> z list -> trace option

val access_data : trace -> char list -> z -> char list option

val value_of_text : char list -> val0

val all_signal_names : trace -> char list list

val trace_has : trace -> char list -> bool

val strs : char list list -> val0

val has_dot : char list -> bool

val in_scope_sig : char list -> char list -> bool

type sigres =
| SVal of val0
| SVirtual of char list
| SErr of err
| SUnmodelled

val trace_signal_value : z -> trace -> char list -> char list -> sigres

type container = { c_traces : (char list * trace) list; c_ntraces : z;
                   c_stack : (char list * z) list list }

val empty_container : container

val with_traces : container -> (char list * trace) list -> container

val has_sep : char list -> bool

type addr =
| AOne of trace * char list
| ABadTid
| ANone

val address : container -> char list -> addr

val cont_contains : container -> char list -> bool option

val cont_signal_value :
  container -> char list -> char list -> sigres * trace option

val cont_signal_width : container -> char list -> z option option

val step_all :
  (char list * trace) list -> z -> (char list * trace) list * char list list

val cont_step :
  container -> z -> char list option -> (container * char list list) option

val cont_indices : container -> (char list * z) list

val cont_store : container -> container

val restore_list :
  (char list * trace) list -> (char list * z) list -> (char list * trace)
  list option

val cont_restore : container -> container option

val cont_scopes : container -> char list list

val cont_signals : container -> char list list

val cont_unload : container -> char list -> container

val cont_add : container -> char list -> trace -> container

val strip_trailing_zeros_rev : char list -> char list

val float_str : spec_float -> char list option

val py_str_atom : val0 -> char list option

val escape_string : char list -> char list

val quote_string : char list -> char list

val opt_cat : char list option -> char list option -> char list option

val wal_str : (nat -> char list option) -> val0 -> char list option

val wal_str0 : val0 -> char list option

val span_digits : char list -> char list * char list

val drop_ranges : nat -> char list -> char list

val angle_index : char -> char -> nat -> char list -> char list

val sub_brackets : char list -> char list

val norm_scope_name : char list -> char list

val norm_var_name : char list -> char list

type 'a presult =
| POk of 'a
| PErr of err
| PUnmodelled

type hdr = { h_scope : char list list; h_scopes : char list list;
             h_raw : char list list; h_ids : char list list;
             h_name2id : (char list * char list) list;
             h_width : (char list * z) list }

val hdr0 : hdr

val skip_to_end : char list list -> char list list option

val first_char_is : char -> char list -> bool

val scope_path : hdr -> char list

val parse_header :
  nat -> char list list -> hdr -> (hdr * char list list) presult

val push_row :
  (char list * char list list) list -> (char list * char list list) list

val set_last :
  (char list * char list list) list -> char list -> char list ->
  (char list * char list list) list

val is_scalar_char : char -> bool

val parse_dump :
  nat -> char list list -> (char list * char list list) list -> z list ->
  ((char list * char list list) list * z list) presult

val finish_col : char list list -> char list list

val vcd_parse : char list -> char list -> char list -> trace presult

val time_header : char list

val norm_csv_name : char list -> char list

val index_of : char list -> char list list -> nat option

val replace_nth : nat -> 'a1 -> 'a1 list -> 'a1 list

val csv_names :
  char list list -> char list list -> char list list -> (char list
  list * char list list) option

val csv_time : char list -> z option

val csv_row_cells :
  char list list -> char list list -> nat -> nat -> (char list * char list
  list) list -> (char list * char list list) list option

val csv_rows :
  char list list list -> char list list -> nat -> (char list * char list
  list) list -> z list -> ((char list * char list list) list * z list) option

val is_crlf : char -> bool

val lstrip_lines : char list -> char list

val csv_strip : char list -> char list

val csv_parse : char list -> char list -> char list -> trace presult

type frame = { f_binds : (char list * val0) list; f_parent : nat option }

type fsent =
| FVcd of char list
| FCsv of char list

type state = { st_frames : frame list; st_cur : nat;
               st_arrays : (char list * val0) list list; st_cont : container;
               st_scope : char list; st_group : char list;
               st_aliases : (char list * char list) list; st_gensym : 
               z; st_out : char list list; st_fs : (char list * fsent) list }

val upd_frames : state -> frame list -> state

val upd_cur : state -> nat -> state

val upd_arrays : state -> (char list * val0) list list -> state

val upd_cont : state -> container -> state

val upd_scope : state -> char list -> state

val upd_group : state -> char list -> state

val upd_aliases : state -> (char list * char list) list -> state

val upd_gensym : state -> z -> state

val upd_out : state -> char list list -> state

val upd_fs : state -> (char list * fsent) list -> state

type 'a res =
| Ok of 'a * state
| Er of err * state
| Unm of char list
| Fuel

type 'a m = state -> 'a res

val ret : 'a1 -> 'a1 m

val bind : 'a1 m -> ('a1 -> 'a2 m) -> 'a2 m

val fail : err -> 'a1 m

val unm : char list -> 'a1 m

val get_st : state m

val modify : (state -> state) -> unit m

val assert0 : bool -> unit m

val require : bool -> err -> unit m

val mapM : ('a1 -> 'a2 m) -> 'a1 list -> 'a2 list m

val of_opt : 'a1 option -> err -> 'a1 m

val get_frame : state -> nat -> frame option

val replace_frame : frame list -> nat -> frame -> frame list

val put_frame : state -> nat -> frame -> state

val new_frame : nat option -> nat m

val env_define : nat -> char list -> val0 -> unit m

val env_undefine : nat -> char list -> unit m

val find_frame : nat -> state -> nat -> char list -> nat option

val lookup_frame : state -> nat -> char list -> nat option

val env_read : nat -> char list -> val0 m

val frame_store : nat -> char list -> val0 -> unit m

val env_write : nat -> char list -> val0 -> unit m

val hop : state -> nat -> nat -> nat option

val global_id : nat

val read_global : char list -> val0 m

val write_global : char list -> val0 -> unit m

val new_array : (char list * val0) list -> val0 m

val get_array : nat -> (char list * val0) list m

val replace_nth_l : 'a1 list -> nat -> 'a1 -> 'a1 list

val put_array : nat -> (char list * val0) list -> unit m

val emit : char list -> unit m

val output_of : state -> char list

val truthy : state -> val0 -> bool

val two53 : z

type num =
| NInt of z
| NFloat of spec_float

val as_num : val0 -> num option

val is_int_val : val0 -> bool

val is_num_val : val0 -> bool

val int_of : val0 -> z option

val small_int : z -> bool

val num_cmp : num -> num -> comparison option

val py_eq : val0 -> val0 -> bool option

val clamp_index : z -> z -> z

val py_slice_list : 'a1 list -> z -> z -> 'a1 list

val py_index_list : 'a1 list -> z -> 'a1 option

val is_lit : val0 -> bool

val is_num_lit : val0 -> bool

val is_str_lit : val0 -> bool

val lit_truthy : val0 -> bool

val num_add' : num -> num -> num option

val num_mul' : num -> num -> num option

val fold_num' : (num -> num -> num option) -> num -> num list -> num option

val val_of_num' : num -> val0

val n_floats : val0 list -> nat

val lit_sum : val0 list -> val0 option

val lit_prod : val0 list -> val0 option

val str_of_lit : val0 -> char list

val optimize_node : bool -> op -> val0 list -> val0 option

val optimize_opt : val0 -> val0 option

val optimize : val0 -> val0

val optimize_modelled : val0 -> bool

type 'a rres =
| RsOk of 'a
| RsErr of err

val scope_steps : char list list list -> char list -> nat -> nat option

val add_to_innermost : char list list list -> char list -> char list list list

val sym_name : val0 -> char list option

val resolve_list :
  (char list list list -> val0 -> (val0 * char list list list) rres) ->
  char list list list -> val0 list -> (val0 list * char list list list) rres

val resolve_vars :
  nat -> char list list list -> val0 -> (val0 * char list list list) rres

val val_depth : val0 -> nat

val resolve : char list list -> val0 -> val0 rres

val eval_args : (val0 -> val0 m) -> val0 list -> val0 list m

val last_or_index_error : val0 list -> val0 m

val arg0 : val0 list -> val0 m

val printable : val0 -> char list m

val contains_m : char list -> bool m

val replace_trace : trace -> unit m

val virtual_value : (val0 -> val0 m) -> char list -> char list -> val0 m

val signal_value_m : (val0 -> val0 m) -> char list -> char list -> val0 m

val eval_symbol : (val0 -> val0 m) -> char list -> nat option -> val0 m

val eval_closure : (val0 -> val0 m) -> val0 -> val0 list -> val0 m

val op_not : (val0 -> val0 m) -> val0 list -> val0 m

val all_eq_first : val0 -> val0 list -> bool option

val op_eq : (val0 -> val0 m) -> bool -> val0 list -> val0 m

val op_cmp : (val0 -> val0 m) -> (comparison -> bool) -> val0 list -> val0 m

val and_loop : (val0 -> val0 m) -> val0 list -> val0 m

val op_and : (val0 -> val0 m) -> val0 list -> val0 m

val or_loop : (val0 -> val0 m) -> val0 list -> val0 m

val op_or : (val0 -> val0 m) -> val0 list -> val0 m

val op_let : (val0 -> val0 m) -> val0 list -> val0 m

val op_set : (val0 -> val0 m) -> val0 list -> val0 m

val op_define : (val0 -> val0 m) -> val0 list -> val0 m

val to_text : val0 -> char list m

val op_print : (val0 -> val0 m) -> val0 list -> val0 m

val printf_arg_s : val0 -> char list m

val printf_go : nat -> char list -> val0 list -> char list m

val op_printf : (val0 -> val0 m) -> val0 list -> val0 m

val op_if : (val0 -> val0 m) -> val0 list -> val0 m

val case_key_str : val0 -> char list option

val op_case : (val0 -> val0 m) -> val0 list -> val0 m

val op_do : (val0 -> val0 m) -> val0 list -> val0 m

val while_loop :
  (val0 -> val0 m) -> nat -> val0 -> val0 list -> val0 -> val0 m

val op_while : nat -> (val0 -> val0 m) -> val0 list -> val0 m

val op_alias : (val0 -> val0 m) -> val0 list -> val0 m

val op_unalias : val0 list -> val0 m

val op_quote : val0 list -> val0 m

val unquote_go : (val0 -> val0 m) -> nat -> val0 -> val0 m

val op_quasiquote : nat -> (val0 -> val0 m) -> val0 list -> val0 m

val run_passes :
  (val0 -> nat option -> val0 m) -> val0 -> nat option -> char list list ->
  val0 m

val op_eval :
  (val0 -> val0 m) -> (val0 -> nat option -> val0 m) -> val0 list -> val0 m

val is_sym : val0 -> bool

val op_fn : val0 list -> val0 m

val op_defmacro : (val0 -> nat option -> val0 m) -> val0 list -> val0 m

val op_macroexpand :
  (val0 -> val0 m) -> (val0 -> nat option -> val0 m) -> val0 list -> val0 m

val op_gensym : val0 list -> val0 m

val op_get : (val0 -> val0 m) -> val0 list -> val0 m

val all_in_range : (char list * trace) list -> z -> bool

val step_all_m : z -> char list list m

val restore_m : unit m

val op_reval : (val0 -> val0 m) -> val0 list -> val0 m

val name_of : val0 -> char list option

val set_scope_cs : char list -> unit m

val op_in_scope : (val0 -> val0 m) -> val0 list -> val0 m

val op_all_scopes : (val0 -> val0 m) -> val0 list -> val0 m

val cs_text : char list m

val alias_of : state -> char list -> char list

val read_named_signal : (val0 -> val0 m) -> char list -> val0 m

val op_resolve_scope : (val0 -> val0 m) -> val0 list -> val0 m

val op_set_scope : val0 list -> val0 m

val op_unset_scope : val0 list -> val0 m

val no_dot_backslash : char list -> bool

val strip_suffix : char list -> char list -> char list option

val op_groups : (val0 -> val0 m) -> val0 list -> val0 m

val op_in_group : (val0 -> val0 m) -> val0 list -> val0 m

val op_in_groups : (val0 -> val0 m) -> val0 list -> val0 m

val op_resolve_group : (val0 -> val0 m) -> val0 list -> val0 m

val chars_of : char list -> val0 list

val op_slice : (val0 -> val0 m) -> val0 list -> val0 m

val op_loaded_traces : val0 list -> val0 m

val op_exit : (val0 -> val0 m) -> val0 list -> val0 m

val is_list_val : val0 -> bool

val is_str_val : val0 -> bool

val py_str : val0 -> char list m

val num_add : num -> num -> num option

val num_sub : num -> num -> num option

val num_mul : num -> num -> num option

val val_of_num : num -> val0

val count_floats : val0 list -> nat

val fold_num : (num -> num -> num option) -> num -> num list -> num option

val py_sum : val0 list -> val0 m

val op_add : (val0 -> val0 m) -> val0 list -> val0 m

val op_sub : (val0 -> val0 m) -> val0 list -> val0 m

val op_mul : (val0 -> val0 m) -> val0 list -> val0 m

val to_float_small : num -> spec_float option

val op_div : (val0 -> val0 m) -> val0 list -> val0 m

val op_exp : (val0 -> val0 m) -> val0 list -> val0 m

val op_mod : (val0 -> val0 m) -> val0 list -> val0 m

val is_bool_val : val0 -> bool

val op_bitwise : (val0 -> val0 m) -> (z -> z -> z) -> val0 list -> val0 m

val op_is_defined : (val0 -> val0 m) -> val0 list -> val0 m

val op_all_pred : (val0 -> val0 m) -> (val0 -> bool) -> val0 list -> val0 m

val op_convert_bin : (val0 -> val0 m) -> val0 list -> val0 m

val of_int_parse : int_parse -> val0 m

val op_string_to_int : (val0 -> val0 m) -> val0 list -> val0 m

val op_bits_to_sint : (val0 -> val0 m) -> val0 list -> val0 m

val op_symbol_to_string : (val0 -> val0 m) -> val0 list -> val0 m

val op_string_to_symbol : (val0 -> val0 m) -> val0 list -> val0 m

val op_int_to_string : (val0 -> val0 m) -> val0 list -> val0 m

val op_list : (val0 -> val0 m) -> val0 list -> val0 m

val eval_list1 : (val0 -> val0 m) -> val0 list -> (bool * val0 list) m

val op_first : (val0 -> val0 m) -> val0 list -> val0 m

val op_second : (val0 -> val0 m) -> val0 list -> val0 m

val op_last : (val0 -> val0 m) -> val0 list -> val0 m

val op_rest : (val0 -> val0 m) -> val0 list -> val0 m

val py_in : val0 -> val0 list -> bool option

val key_text : val0 -> char list m

val op_in : (val0 -> val0 m) -> val0 list -> val0 m

val quoted : val0 -> val0

val quoted_pl : val0 -> val0

val op_map : (val0 -> val0 m) -> val0 list -> val0 m

val is_plain_int : val0 -> bool

val op_maxmin : (val0 -> val0 m) -> bool -> val0 list -> val0 m

val op_average : (val0 -> val0 m) -> val0 list -> val0 m

val op_zip : (val0 -> val0 m) -> val0 list -> val0 m

val op_length : (val0 -> val0 m) -> val0 list -> val0 m

val op_fold : (val0 -> val0 m) -> val0 list -> val0 m

val range_up : nat -> z -> z -> z -> z list

val py_range : z -> z -> z -> z list

val op_range : (val0 -> val0 m) -> val0 list -> val0 m

val array_key : val0 -> char list m

val op_array : (val0 -> val0 m) -> val0 list -> val0 m

val eval_array : (val0 -> val0 m) -> val0 -> nat m

val op_seta : (val0 -> val0 m) -> val0 list -> val0 m

val op_geta : (val0 -> val0 m) -> val0 list -> val0 m

val op_dela : (val0 -> val0 m) -> val0 list -> val0 m

val op_mapa : (val0 -> val0 m) -> val0 list -> val0 m

val file_ext : char list -> char list

val load_m : char list -> char list option -> unit m

val op_load : (val0 -> val0 m) -> val0 list -> val0 m

val op_unload : (val0 -> val0 m) -> val0 list -> val0 m

val step_tid : val0 -> z -> char list list m

val op_step : (val0 -> val0 m) -> val0 list -> val0 m

val op_is_signal : (val0 -> val0 m) -> val0 list -> val0 m

val set_trace_index : char list -> z -> unit m

val trace_of : char list -> trace m

val find_walk :
  (val0 -> val0 m) -> nat -> char list -> val0 -> z list -> z list m

val op_find : nat -> (val0 -> val0 m) -> val0 list -> val0 m

val restore_saved : (char list * z) list -> unit m

val findg_loop : (val0 -> val0 m) -> nat -> val0 -> val0 list -> val0 list m

val op_find_g : nat -> (val0 -> val0 m) -> val0 list -> val0 m

val whenever_loop :
  (val0 -> val0 m) -> nat -> val0 -> val0 list -> val0 -> val0 m

val op_whenever : nat -> (val0 -> val0 m) -> val0 list -> val0 m

val op_signal_width : (val0 -> val0 m) -> val0 list -> val0 m

val sample_trace : char list -> z list -> unit m

val op_sample_at : (val0 -> val0 m) -> val0 list -> val0 m

val op_trim_trace : (val0 -> val0 m) -> val0 list -> val0 m

val defsig_rewrite : char list -> char list -> val0 -> val0

val op_defsig : val0 list -> val0 m

val dispatch :
  nat -> (val0 -> val0 m) -> (val0 -> nat option -> val0 m) -> op -> val0
  list -> val0 m

val eval_body :
  nat -> (val0 -> val0 m) -> (val0 -> nat option -> val0 m) -> val0 -> val0 m

val is_quote_head : val0 list -> bool

val expand_body :
  (val0 -> val0 m) -> (val0 -> nat option -> val0 m) -> val0 -> nat option ->
  val0 m

val eval : nat -> nat -> val0 -> state -> val0 res

val expand : nat -> nat -> val0 -> nat option -> state -> val0 res

val std_forms : val0 list

val module_forms : val0 list

val lF : nat

val fUEL : nat

val ev0 : val0 -> val0 m

val ex0 : val0 -> nat option -> val0 m

val reset_traces : container -> container

val fresh_globals : (char list * val0) list

val reset_state : state -> state

val empty_state : state

val global_names : state -> char list list

type passes_flags = (bool * bool) * bool

val all_passes : passes_flags

val run_form : passes_flags -> val0 -> val0 m

val eval_forms : val0 list -> unit m

val load_std : unit m

val wal_init : unit res

val ast_truthy : val0 -> bool

val wal_eval_with : passes_flags -> val0 -> (char list * val0) list -> val0 m

val wal_eval : val0 -> (char list * val0) list -> val0 m

val wal_run : val0 -> (char list * val0) list -> val0 m

val api_run_file : val0 list -> val0 m

val cli_run_forms : val0 list -> unit m

val walc_compile : val0 list -> val0 list m

val wal_load : char list -> char list -> unit m

val wal_step : z -> char list option -> char list list m

val hex_digit : z -> char

val hex_of_string : char list -> char list

val string_of_hex : char list -> char list option

val tokens : char list -> char list list

val parse_Z : char list -> z option

val parse_val : nat -> char list list -> (val0 * char list list) option

val parse_vals :
  nat -> char list list -> char list -> (val0 list * char list list) option

val hex64 : z -> char list

val print_val : (char list * val0) list list -> nat -> val0 -> char list

type 'a rres0 =
| ROk of 'a * char list
| RErr
| RUnm

val aZ : char -> z

val is_ws : char -> bool

val is_nl : char -> bool

val is_word : char -> bool

val is_sym_first : char -> bool

val is_sym_rest : char -> bool

val is_hex : char -> bool

val is_bin : char -> bool

val is_octal : char -> bool

val modelled_text : char list -> bool

val span_sym : char list -> char list * char list

val span_p : (char -> bool) -> char list -> char list * char list

val skip_line : char list -> char list

val skip_inter : nat -> char list -> char list

val inter : char list -> char list

val sym_or_op : char list -> val0

val lex_string : char list -> (char list * char list) option

type unesc =
| UOk of char list
| UErr
| UUnm

val unescape : nat -> char list -> unesc

val float_of_decimal : bool -> char list -> char list -> spec_float option

val split_sign : char list -> (bool * bool) * char list

val lex_number : char list -> val0 rres0 option

val is_pyspace_re : char -> bool

val lex_base : char list -> (char list * char list) option

val closer : char -> char option

val two_char_ops : char list list

val one_char_ops : char list list

val first_prefix :
  char list list -> char list -> (char list * char list) option

val p_sexpr : nat -> char list -> val0 rres0

val p_strict : nat -> char list -> val0 rres0

val p_postfix : nat -> val0 -> char list -> val0 rres0

val p_primary : nat -> char list -> val0 rres0

val p_list : nat -> char -> char list -> val0 list -> val0 rres0

val reader_fuel : char list -> nat

val read_sexpr : char list -> val0 rres0

val skip_shebang : char list -> char list

val p_seq : nat -> nat -> char list -> val0 list -> val0 list rres0

val read_sexprs : char list -> val0 list rres0

type wstmt = val0 list * val0

val is_marker : char list -> val0 list -> bool

val begin_actions : wstmt list -> val0 list

val end_actions : wstmt list -> val0 list

val cond_statements : wstmt list -> wstmt list

val find_vars :
  nat -> val0 -> (char list * val0) list -> (char list * val0) list option

val emit_main_loop : wstmt list -> val0

val wawk_emit : wstmt list -> val0 list option

val wawk_run : char list -> wstmt list -> unit m

type bop =
| BOr
| BAnd
| BEq
| BNe
| BGt
| BLt
| BGe
| BLe
| BAdd
| BSub
| BMul
| BDiv

val lvl_op : bop -> nat

type wx =
| WNum of z
| WSym of char list
| WStr of char list
| WNot of wx
| WBin of bop * wx * wx
| WCall of char list * wx list

type tok =
| TNum of z
| TSym of char list
| TStr of char list
| TOp of bop
| TBang
| TLP
| TRP
| TComma

val is_ws0 : char -> bool

val is_sym_start : char -> bool

val is_sym_char : char -> bool

val plain_string_char : char -> bool

type lexres =
| LOk of tok list
| LErr
| LUnm

val lcons : tok -> lexres -> lexres

val head_is : (char -> bool) -> char list -> bool

val skip_ignored : nat -> char list -> char list

val lex : nat -> bool -> char list -> lexres

type pres = (wx * tok list) option

val chainl : (tok list -> pres) -> nat -> nat -> wx -> tok list -> pres

val level : (tok list -> pres) -> nat -> nat -> tok list -> pres

val p_comp : (tok list -> pres) -> tok list -> pres

val p_neg : (tok list -> pres) -> tok list -> pres

val p_args :
  (tok list -> pres) -> nat -> wx list -> tok list -> (wx list * tok list)
  option

val p_atom : (tok list -> pres) -> nat -> tok list -> pres

val p_expr : nat -> tok list -> pres

val parse_tokens : tok list -> wx option

val bop_op : bop -> op

val to_wal : wx -> val0

type xres =
| XOk of val0
| XErr
| XUnm

val wawk_expr : char list -> xres

val pF : nat

val init_result : unit res

val init_state : state

val init_ok : bool

val err_token : err -> char list

val render :
  (state -> 'a1 -> char list) -> 'a1 res -> char list * state option

val pr_val : state -> val0 -> char list

val pr_unit : state -> unit -> char list

val pr_strs : state -> char list list -> char list

val parse_kw : nat -> char list list -> (char list * val0) list option

val flags_of : char list -> passes_flags

val str_arg : char list -> char list option

val dump_trace : trace -> char list

val run_cmd : char list list -> state -> char list * state option

val split_cmds : char list list -> char list list -> char list list list

val final_obs : state -> char list

val run_try : char list list -> state -> char list * state option

val run_cmds : char list list list -> state -> char list

val run_line : char list -> char list
