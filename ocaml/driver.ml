(* driver.ml — no logic: one protocol line in, one result line out *)
let explode s = List.init (String.length s) (String.get s)
let implode l = String.init (List.length l) (List.nth l)
let implode l =
  let b = Buffer.create 256 in
  List.iter (Buffer.add_char b) l; Buffer.contents b
let () =
  try
    while true do
      let line = input_line stdin in
      let out = try implode (Model.run_line (explode line))
                with Stack_overflow -> "CRASH stack" | Out_of_memory -> "CRASH memory" in
      print_string out; print_newline ()
    done
  with End_of_file -> ()
