#!/usr/bin/env python3
"""writes MANIFEST.json from the table below (kept in one place so it stays valid)"""
import json
import os

HERE = os.path.dirname(os.path.dirname(os.path.abspath(__file__)))

TB = ('Trusted: Coq 8.16.1 kernel; extraction (ExtrOcamlBasic, ExtrOcamlString) + OCaml driver; gen/translate.py and the '
      'repository reader for Generated.v; the Python correspondence harness; Python/Lark/pickle/OS semantics are modelled, '
      'not verified. No axioms: every property theorem is "Closed under the global context" (checked each run).')

DIFF = ' Tie to code: the extracted model and the implementation run the same generated sessions each run (differential correspondence) next to an independent oracle.'

CHECKS = {
 'C01': dict(
    text='Theorem vcd_fidelity (Coq, all documents/layouts, no bound): for every well-formed VCD document (header blocks in any order, '
         'any scope nesting, shared/adversarial id codes, any widths, $dumpvars/comments, changes before the first timestamp, repeated changes) '
         'and every whitespace layout, the parser model yields the declared names/scopes in order, the #-timestamps as indices, each signal column = '
         'last value assigned to its id code at or before each timestamp (x before any), declared widths; value_at_index: integer iff binary. '
         'Tie to code: extracted parser vs Wal.load observations on generated documents + independent denotation oracle.',
    technique='Coq proof (parser inverts renderer, refinement to document reading) + differential correspondence + denotation oracle'),
 'C02': dict(
    text='Theorems (Coq, all traces/indices/amounts): Trace.step moves by exactly n iff 0 <= index+n <= max and otherwise changes nothing and reports the trace; '
         'container step over all/named traces; invariant 0 <= index <= max over every operation sequence (nav_invariant); INDEX/TS observe the position; '
         'the amount accepted by (step) in every argument form.' + DIFF,
    technique='Coq proof (invariant by induction over operation sequences) + differential correspondence + position oracle'),
 'C03': dict(
    text='Theorems (Coq): e@k evaluates e with every trace at index+k and, in range, puts back exactly the saved positions (restore_puts_back) whatever e does to them; '
         'out of range yields #f / error without moving; the whole evaluator leaves the index stack balanced (T-bal, induction over the evaluator); for a read-only e (T-ro fragment) '
         'on one trace e@k is e at index i+k and the interpreter state afterwards is EXACTLY the state before, and the composition law (e@j)@k = e@(j+k) holds '
         '(StackIndep.v: the fragment ignores the stack of saved positions). PARTIAL: composition for expressions outside the fragment and for several traces is decided by '
         'the differential check.' + DIFF,
    technique='Coq proof (save/restore refinement, balanced-context induction) + differential correspondence + offset oracle'),
 'C04': dict(
    text='Theorems (Coq, any condition behaviour whose truth depends on the index only, any trace, any start index): (find c) and (find/g c) on one trace return exactly '
         'filter P [i..m] ascending without duplicates and restore the index; (whenever c body) refines a for-loop over i..m that evaluates the body exactly once at each '
         'hit and returns the last body value; with ANY number of traces whenever and find/g leave every trace index, the set of traces and their extent as before '
         '(position neutrality); T-ro: expressions built from literals, names, arithmetic, comparison, logic, bitwise operators, slice, if, do and e@k leave the state exactly as it '
         'was (real evaluator, any fuel), so for such conditions find is pointwise given only that c can be evaluated at every index. count = length of find by C15/C14. '
         'PARTIAL: purity of conditions with scoped references, virtual signals or user functions and the two-trace lock-step results are decided by the differential check.' + DIFF,
    technique='Coq proof (loop refinement by induction on fuel, restore invariant) + differential correspondence + brute-force scan oracle'),
 'C05': dict(
    text='Theorems (Coq): ~s / #s / alias / scoped and grouped references denote the concatenated full name; a missing signal raises; in-scope, in-group, in-scopes, all-scopes '
         'run the body with scope/group set and restore both on completion (also through the balanced-context theorem for the whole evaluator). '
         '(groups s0 s1 ..) returns, ascending and without duplicates, exactly the admissible prefixes p (no line break when no scope is captured; S. plus text without dot or backslash otherwise) such that p+s0 is a signal and every p+si exists, suffixes as literal text (GroupsProofs.v). '
         'Inside (in-group g body) the captured scope is the part of g up to its last dot, the scope captured before when g has none (GroupScope.v). '
         'PARTIAL: that the regular expression in `groups` computes this prefix/suffix relation is decided by the differential check against a brute-force oracle.' + DIFF,
    technique='Coq proof (name denotation lemmas, restore lemmas) + differential correspondence + brute-force group oracle'),
 'C06': dict(
    text='Theorems (Coq, all frame heaps): lookup finds the innermost binding and skips non-binding frames; define/set/let/fn obey the environment model; a closure call '
         'runs in a frame whose parent is the captured one (lexical, not dynamic) and restores the caller frame; let is sequential; error cases; no frame ever binds a name twice (FrameInv.v: whole evaluator by induction on fuel, and every history of API operations). '
         'case runs exactly the body of the first clause whose key equals the value of the key form, the default clause only when none does (CaseProofs.v). Left-to-right single evaluation is the definition of eval_args and is tied to the code by the differential check against a reference interpreter.' + DIFF,
    technique='Coq proof (environment-model laws) + differential correspondence + reference interpreter oracle'),
 'C07': dict(
    text='Theorems (Coq): whenever the static scope stack describes the dynamic frame chain (chain_matches), a symbol resolved to distance k reads and writes exactly the binding '
         'dynamic lookup finds; the resolver computes the distance of the innermost recording scope; resolution only annotates (erasing the distances from the resolved form '
         'gives the original form, all forms and scope stacks) and is idempotent; T-res for a fragment (ResolveLet.v): for every program built from literals, variables, the '
         'read-only operators, while, print, set and let nested to ANY depth, the resolved program and the program as written give the same outcome (value or error, and final state) for every '
         'fuel, on every state whose global frame binds the start names -- the invariant "static scope stack describes the dynamic frame chain" is carried through every binder, '
         'one congruence lemma per operator, induction on fuel. PARTIAL: functions/closures, define in nested scopes, eval and macros are outside that fragment (the known finding '
         'lives there); those programs are decided by the differential check (resolved vs unresolved runs, exhaustive binder chains to depth 5).' + DIFF,
    technique='Coq proof (resolution agrees with dynamic lookup under the chain invariant; whole-fragment agreement theorem for let/set programs by induction on fuel) + differential correspondence'),
 'C08': dict(
    text='Theorems (Coq, any state, any sub-evaluator returning literals unchanged): every rewrite rule of optimize (if/do/&&/||/+/* folding) is an equation of the evaluator: '
         'same value, same type, same state; folded operands are literals only; T-opt for a fragment, congruence included (OptRo.v): for every expression built from '
         'integer/boolean/string literals, names, + - * ** mod, comparison, logic, bitwise operators, slice, if and do, nested arbitrarily, a completed evaluation of the '
         'unoptimised expression is reproduced (value and state) by the optimised one; extended (OptLet.v) to programs with while, print, set and let nested arbitrarily (same value, output, assignments and frames). PARTIAL: expressions outside that fragment (functions, quoted data, scans) and float products are decided by the '
         'differential check (with vs without the pass, exhaustive small trees). Quoted data is left alone and nothing but the listed shapes is rewritten (QuoteProofs.v, OptOnly.v).' + DIFF,
    technique='Coq proof (each optimizer rule is an evaluator equation) + differential correspondence'),
 'C09': dict(
    text='Theorems (Coq, all widths/arity, no bound): bit/slice = floor(x/2^l) mod 2^(h-l+1), adjacent slices reassemble, '
         'n-ary + - * mod ** comparisons and bor/band/bxor of the evaluator compute the Z operations on whatever the operands '
         'evaluate to, convert/bin numeral+length, bits->sint two\'s complement, (signed s) reading, numeral round trips in any base '
         '2..36, signal text -> integer. Tie to code: extracted model vs implementation on generated expressions (literals and '
         'VCD signals up to 256 bits) plus an independent Python-integer oracle.',
    technique='Coq proof over executable Gallina model + differential correspondence (extracted OCaml) + integer oracle'),
 'C10': dict(
    text='Theorems (Coq, numerals/strings of any length): decimal, 0x, 0b and signed literals read as their integer value in every position (top level, list, quote, @ offset, '
         'slice bounds); string literals with every escape read as the intended text; the reader model is a total function; layout invariance (LayoutProofs.v): any gap '
         '(white space and ;-comments running to a line break) after an opening bracket, between elements, before a closing bracket and around the text does not change what is read, for every expression built from '
         'integers, strings, symbols, booleans, operators and nested lists. PARTIAL: totality of the Lark-based implementation and layout of the remaining forms are '
         'decided by the differential check on random, mutated and re-laid-out texts. A single-expression read consumes the entire input (ReadWhole.v).' + DIFF,
    technique='Coq proof (scannerless reader model, literal lemmas, layout/comment invariance by mutual induction) + differential correspondence + Python int/float oracle'),
 'C11': dict(
    text='Theorems (Coq): printed integers of any size and sign and printed strings over ASCII (with the escapes wal_str writes) read back as themselves in every position; '
         'STRUCTURAL round trip (RoundTrip.v, induction on expression size): every expression built from integers, strings, plain symbols, booleans, all 106 operators and '
         'arbitrarily nested lists prints to a text that reads back as the same expression, at top level and in every position. '
         'SHORTHANDS (Shorthand.v): for every operand e of that class, in every position, \'e `e ,e ,@e read as quote / quasiquote / unquote / unquote-splice of e, ~s and #s as '
         'resolve-scope / resolve-group of the symbol, e@k as (reval e k), e[i] and e[h:l] as (slice e i) / (slice e h l) for integers of any size; quote and quasiquote forms of '
         'the class round-trip through the printer, and so does every expression of the class with these prefix forms nested anywhere (RoundTripQ.v). PARTIAL: floats, {array}, escaped identifiers, non-integer offsets/bounds and the '
         'equivalence of the three bracket kinds are decided by the differential check on expressions generated from the reader grammar.' + DIFF,
    technique='Coq proof (parser inverts printer: atoms in context, lists by induction on size; one in-context theorem per shorthand) + differential correspondence + read-print-read oracle'),
 'C12': dict(
    text='Theorems (Coq): qualified names address exactly one trace; with one trace the qualified and plain name agree; stepping a named trace moves only it; the loaded-trace '
         'count equals the number of traces over every load/unload sequence; a failed load changes nothing; unload removes exactly that trace; and for the WHOLE evaluator '
         '(ContInv.v, induction over every operator): every completed evaluation keeps ids distinct, every trace filed under its own id and the count equal to the number of traces, '
         'hence in every state reachable from a new interpreter by any sequence of load/step/eval/run. A load without an id uses t<number of loaded traces> and fails, changing nothing, when that id is taken (LoadGen.v).' + DIFF,
    technique='Coq proof (container invariants by induction over operations) + differential correspondence'),
 'C13': dict(
    text='Theorems (Coq, any body, any history of reads): a cache hit returns the value stored under the current timestamp; a miss evaluates the body at the current index and '
         'stores it under that timestamp; soundness invariant: if every cached value is the body value of its time point, each read serves the value of the current time point '
         'and keeps the invariant (any visit order); reads at ANY sequence of indices (any order, repeats) give the body value at each index (VirtualOrder.v, with a '
         'real-evaluator instance); sample-at empties every cache; naming relative to captured scope/group; ~/# references fixed at definition; the defined '
         'signal is listed; frame rule (VirtFrame.v): expressions of the read-only fragment incl. e@k over names that are not aliases/virtual signals/listing names have the same value with and '
         'without the virtual signals and leave the state as it was, so for such bodies the any-order theorem holds for the real evaluator at any fuel without a purity premise. '
         'PARTIAL: for bodies outside that fragment (scoped references, calls) "a function of the time point" stays the premise, exercised by the differential check.' + DIFF,
    technique='Coq proof (cache soundness invariant over all read histories; per-operator frame rule for the read-only fragment) + differential correspondence + body-vs-signal oracle'),
 'C14': dict(
    text='Theorems (Coq): first/second/last/rest/length/zip/list/+ on lists/slice/range compute head, tail, length, combine, concatenation, firstn/skipn after clamping, '
         'the integer interval; arrays are a finite map with textual keys in insertion order after any seta/dela sequence; geta present-or-error; map and fold (MapFold.v, any sub-evaluator): '
         'if applying the operator/function to an element yields g el with state effect h el, (map f l) is List.map g of the elements in order with the effects composed left to right, '
         '(fold f a l) is fold_left g; with the real evaluator (fold + a l)/(fold * a l) over integers are the sum/product; in is membership, max/min return an element that bounds all others, + of two lists is append (ListOps.v); (range a b s) for every non-zero step is exactly the arithmetic progression a+k*s on the side of b selected by the sign of s, in order, nothing missing and nothing else, step 0 is an error (RangeProofs.v). PARTIAL: the std.wal functions defined by recursion (filter/'
         'reverse/sort/partition) and immutability of reachable lists are decided by the differential check against Python sequence operations.' + DIFF,
    technique='Coq proof (list operator equations, map/fold as List.map/fold_left, finite-map laws) + differential correspondence + Python sequence oracle'),
 'C15': dict(
    text='Theorems (Coq, operands as variables, macro bodies regenerated from the current std.wal each run): ~30 library forms (when, unless, cond, for, for/list, inc, dec, '
         'count, always, timeframe, sum, append, ...) expand exactly to their documented defining expressions with operands unevaluated and placed as shown; gensym names are '
         'fresh and increasing. PARTIAL: cond for closed clause heads; defun-defined helpers and user defmacro/macroexpand agreement by the differential check.' + DIFF,
    technique='Coq proof by evaluation of the translated macro bodies on symbolic operands + differential correspondence'),
 'C16': dict(
    text='Theorems (Coq): resolve is idempotent for every form and scope stack; the command-line pipeline (passes then Wal.eval running the passes again) equals the API pipeline on '
         'every form whose processed version is a fixed point of expand and optimize; a form without macro calls is a fixed point of expand and expanding it leaves the state unchanged '
         '(ExpandProofs.v); run_file is the sequence of Wal.eval calls; falsy forms skipped. PARTIAL: reader/printer/pickle legs, process exit codes and the macro-freeness of '
         'expand output are decided by running the five real entry points as subprocesses and comparing them.' + DIFF,
    technique='Coq proof (resolve idempotence, pipeline equality on pass fixed points) + subprocess path comparison + differential correspondence'),
 'C17': dict(
    text='Theorems (Coq, induction over the whole evaluator, one lemma per operator): every completed evaluation leaves the current frame, scope, group and index stack as they '
         'were and only extends the frame heap; the API entry (Wal.eval with keyword arguments) restores shadowed globals: a keyword binding of an existing global is written, the evaluation proper runs in that state, and the old value is read again afterwards whatever the evaluation did; a fresh name is appended and removed (KwProofs.v; with the frame invariant of FrameInv.v the fresh name is unbound afterwards in every reachable state); Wal.run starts from a fresh state.' + DIFF,
    technique='Coq proof (balanced-context invariant by induction on evaluator fuel) + differential correspondence'),
 'C18': dict(
    text='Theorems (Coq): time cell with 0..9 fractional digits -> integer ns exactly, for numerals of any length (csv_time); decimal value inverts the numeral printer; '
         'header walk: every non-time column renamed in place, signals = normalised names in order; table walk: timestamps = converted time cells in row order and each '
         'uniquely named column holds its cell of every row in row order, wherever the time column stands, any number of rows/columns. '
         'csv_fidelity: the reader as a whole on the text of any well-formed table (cells without comma/line break, one row per line, optional trailing white space): '
         'time stamps = converted time cells in row order, signals = normalised names in file order, and each signal holds at index i the cell of row i in its column '
         '(splitting inverts joining by induction on the text, then the walks). '
         'PARTIAL: the name-normalisation regexes (norm_csv_name) and reading the file as text are decided by the correspondence check '
         '(extracted csv_parse vs Wal.load on generated tables) and the independent denotation oracle.',
    technique='Coq proof (ns conversion, split/join inversion, header and table walk, whole-reader fidelity theorem by induction) + differential correspondence (extracted CSV parser) + denotation oracle'),
 'C19': dict(
    text='Theorems (Coq): sample-at keeps one sample per distinct selected index in list order, builds lookup table and timestamps from the same list, resets the index and '
         'drops virtual caches; the value at new index j is the original value at the j-th selected sample; a later sample-at refers to original indices; trim-trace sets '
         'max to min(m, max). Navigation/@/scans on the resampled trace are the same operators (C02-C04 theorems are parametric in the trace).' + DIFF,
    technique='Coq proof (resampling specification lemmas) + differential correspondence + re-indexing oracle'),
 'C20': dict(
    text='Theorems (Coq): BEGIN/END/conditional classification is a partition keeping source order; the emitted program is (do defines BEGIN...), main loop (only with conditional '
         'statements), END...; each collected variable defined once; the main loop (whenever #t (when (&& c...) action)...) visits every index from the current one to the last '
         'once, ascending, statements in source order, and restores the index. The expression rules of the grammar are modelled as a lexer and a parser with one function per level (WawkParse.v) and '
         'every expression tree (numbers, symbols, strings, calls, !, the 12 binary operators, any depth) written with parentheses only where the levels require them parses back to that tree: binary '
         'operators group left to right, * / over + -, comparisons below, && over || (WawkParseProofs.v), and the text of every well-formed tree (one space after each token) is read by lexer, parser and transformer as that tree (WawkLexProofs.v); the model parser is tied to the Earley parser by the differential check on generated expression texts, and the grammar text of those rules is regenerated on every run and proved equal to the rules the model implements (WawkGrammarTies.v). '
         'PARTIAL: the statement syntax of the Earley parser is not modelled: decided by the '
         'differential check against an AWK-style reference evaluation; -o by the reader round trip.' + DIFF,
    technique='Coq proof (emit structure, main-loop refinement, expression-parser round trip) + differential correspondence + AWK-style reference evaluator'),
}
for _k, _v in CHECKS.items():
    _v.setdefault('design', 'DESIGN.md §6 ' + _k)

NOT_YET = {}


def main():
    props = [json.loads(l) for l in open(os.path.join(HERE, 'properties.jsonl'))]
    checks = []
    na = []
    for p in props:
        pid = p['id']
        if pid in CHECKS:
            c = CHECKS[pid]
            checks.append({
                'property_id': pid,
                'quick_cmd': f'./check {pid} quick',
                'thorough_cmd': f'./check {pid} thorough',
                'evidence_file': f'evidence/{pid}.json',
                'replay_cmd_template': f'./check {pid} quick --replay {{path}}',
                'engine': 'coq-model',
                'level_claimed': {'category': c.get('category', 'proof'), 'text': c['text'], 'design_ref': c['design']},
                'level_note': c.get('note', TB),
                'technique': c['technique'],
            })
        else:
            na.append({'property_id': pid, 'reason': NOT_YET.get(pid, 'check not built yet in this revision (work in progress, see DESIGN.md §9)')})
    m = {
        'version': 1,
        'setup_cmd': './setup.sh',
        'hooks': {'guard': 'WAL_VERIF', 'enable': 'no source hooks: the harness composes passes itself and rebinds module-level names inside its own worker process',
                  'baseline_off_cmd': 'cd /repo && /venv/bin/python -m pytest -ra -q -p no:cacheprovider --timeout=900 --continue-on-collection-errors',
                  'source_commits': [], 'add_only': True},
        'engines': [{'name': 'coq-model', 'path': 'coq/', 'serves_properties': sorted(CHECKS),
                     'kind_free_text': 'hand-written executable Gallina model of WAL + theorems (coq/props), extracted to OCaml and run against the implementation; Generated.v regenerated from /repo each run'}],
        'checks': checks,
        'not_applicable': na,
        'notes': 'fix: commits in /repo are listed in known_findings.json (status fixed). See DESIGN.md.',
    }
    with open(os.path.join(HERE, 'MANIFEST.json'), 'w') as f:
        json.dump(m, f, indent=1)
    print('MANIFEST.json:', len(checks), 'checks,', len(na), 'not applicable')


if __name__ == '__main__':
    main()
