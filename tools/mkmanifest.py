#!/usr/bin/env python3
"""writes MANIFEST.json from the table below (kept in one place so it stays valid)"""
import json
import os

HERE = os.path.dirname(os.path.dirname(os.path.abspath(__file__)))

TB = ('Trusted: Coq 8.16.1 kernel; extraction (ExtrOcamlBasic, ExtrOcamlString) + OCaml driver; gen/translate.py and the '
      'repository reader for Generated.v; the Python correspondence harness; Python/Lark/pickle/OS semantics are modelled, '
      'not verified. No axioms: every property theorem is "Closed under the global context" (checked each run).')

CHECKS = {
 'C01': dict(
    text='Theorem vcd_fidelity (Coq, all documents/layouts, no bound): for every well-formed VCD document (header blocks in any order, '
         'any scope nesting, shared/adversarial id codes, any widths, $dumpvars/comments, changes before the first timestamp, repeated changes) '
         'and every whitespace layout, the parser model yields the declared names/scopes in order, the #-timestamps as indices, each signal column = '
         'last value assigned to its id code at or before each timestamp (x before any), declared widths; value_at_index: integer iff binary. '
         'Tie to code: extracted parser vs Wal.load observations on generated documents + independent denotation oracle.',
    design='DESIGN.md §6 C01',
    technique='Coq proof (parser inverts renderer, refinement to document reading) + differential correspondence + denotation oracle'),
 'C18': dict(
    text='Theorems (Coq): time cell with 0..9 fractional digits -> integer ns exactly, for numerals of any length (csv_time); decimal value inverts the numeral printer. '
         'PARTIAL: the table walk (column order, time column position, header normalisation) is decided by the correspondence check '
         '(extracted csv_parse vs Wal.load on generated tables) and the independent denotation oracle, not by a theorem.',
    design='DESIGN.md §6 C18',
    technique='Coq proof of the ns conversion + differential correspondence (extracted CSV parser) + denotation oracle'),
 'C09': dict(
    text='Theorems (Coq, all widths/arity, no bound): bit/slice = floor(x/2^l) mod 2^(h-l+1), adjacent slices reassemble, '
         'n-ary + - * mod ** comparisons and bor/band/bxor of the evaluator compute the Z operations on whatever the operands '
         'evaluate to, convert/bin numeral+length, bits->sint two\'s complement, (signed s) reading, numeral round trips in any base '
         '2..36, signal text -> integer. Tie to code: extracted model vs implementation on generated expressions (literals and '
         'VCD signals up to 256 bits) plus an independent Python-integer oracle.',
    design='DESIGN.md §6 C09',
    technique='Coq proof over executable Gallina model + differential correspondence (extracted OCaml) + integer oracle'),
}

NOT_YET = {}


def main():
    props = [json.loads(l) for l in open(os.path.join(HERE, 'properties.jsonl'))]
    checks = []
    na = []
    for p in props:
        pid = p['id']
        if pid in CHECKS:
            c = CHECKS[pid]
            checks.append({
                'property_id': pid,
                'quick_cmd': f'./check {pid} quick',
                'thorough_cmd': f'./check {pid} thorough',
                'evidence_file': f'evidence/{pid}.json',
                'replay_cmd_template': f'./check {pid} quick --replay {{path}}',
                'engine': 'coq-model',
                'level_claimed': {'category': c.get('category', 'proof'), 'text': c['text'], 'design_ref': c['design']},
                'level_note': c.get('note', TB),
                'technique': c['technique'],
            })
        else:
            na.append({'property_id': pid, 'reason': NOT_YET.get(pid, 'check not built yet in this revision (work in progress, see DESIGN.md §9)')})
    m = {
        'version': 1,
        'setup_cmd': './setup.sh',
        'hooks': {'guard': 'WAL_VERIF', 'enable': 'no source hooks: the harness composes passes itself and rebinds module-level names inside its own worker process',
                  'baseline_off_cmd': 'cd /repo && /venv/bin/python -m pytest -ra -q -p no:cacheprovider --timeout=900 --continue-on-collection-errors',
                  'source_commits': [], 'add_only': True},
        'engines': [{'name': 'coq-model', 'path': 'coq/', 'serves_properties': sorted(CHECKS),
                     'kind_free_text': 'hand-written executable Gallina model of WAL + theorems (coq/props), extracted to OCaml and run against the implementation; Generated.v regenerated from /repo each run'}],
        'checks': checks,
        'not_applicable': na,
        'notes': 'fix: commits in /repo are listed in known_findings.json (status fixed). See DESIGN.md.',
    }
    with open(os.path.join(HERE, 'MANIFEST.json'), 'w') as f:
        json.dump(m, f, indent=1)
    print('MANIFEST.json:', len(checks), 'checks,', len(na), 'not applicable')


if __name__ == '__main__':
    main()
