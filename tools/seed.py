#!/usr/bin/env python3
"""seed.py <PID> <srcdir> <name> [--checks C01,C02] [--no-tests] — validate a seeded change and run checks against it.
(--no-tests: re-validation of an already validated seed; the pinned suite is not run again, the recorded result is kept.)

srcdir contains patch.diff, demo.py, notes.md (written by an independent sub-agent in a scratch worktree).
Steps: (1) demo on clean /repo exits 0; (2) git -C /repo apply patch; demo exits non-zero; baseline tests unchanged;
(3) ./check <PID> quick (and any extra checks) -> detected? ; (4) git -C /repo checkout -- . ; writes
/verif/seeded/<name>/{patch.diff,demo.py,notes.md,meta.json}."""
import json
import os
import shutil
import subprocess
import sys

VERIF = os.path.dirname(os.path.dirname(os.path.abspath(__file__)))
REPO = os.environ.get('SEED_REPO', '/repo')   # SEED_REPO=<scratch worktree of /repo>: validate there instead of in /repo
PY = '/venv/bin/python'


def sh(cmd, cwd=None, timeout=1800):
    p = subprocess.run(cmd, shell=True, cwd=cwd, stdout=subprocess.PIPE, stderr=subprocess.STDOUT, text=True,
                       timeout=timeout, env=dict(os.environ, PYTHONPATH=REPO, PYTHONHASHSEED='0', PYTHONDONTWRITEBYTECODE='1'))
    return p.returncode, p.stdout


def tests():
    rc, out = sh(f'{PY} -m pytest -q -p no:cacheprovider -rA tests 2>&1 | grep -E "^(PASSED|FAILED|ERROR)" | sort', cwd=REPO)
    # outcome and test id only: the message of a test that fails anyway (optional FST library missing) may differ
    return '\n'.join(line.split(' - ')[0] for line in out.splitlines())


def main():
    pid, src, name = sys.argv[1], sys.argv[2], sys.argv[3]
    checks = [pid]
    if '--checks' in sys.argv:
        checks = sys.argv[sys.argv.index('--checks') + 1].split(',')
    dst = os.path.join(VERIF, 'seeded', name)
    os.makedirs(dst, exist_ok=True)
    for f in ('patch.diff', 'demo.py', 'notes.md'):
        if os.path.exists(os.path.join(src, f)) and os.path.abspath(src) != os.path.abspath(dst):
            shutil.copy(os.path.join(src, f), os.path.join(dst, f))
    meta = {'property': pid, 'name': name, 'ran': []}
    assert sh('git status --porcelain', cwd=REPO)[1].strip() == '', '/repo not clean'
    skip_tests = '--no-tests' in sys.argv
    old = {}
    if skip_tests and os.path.exists(os.path.join(dst, 'meta.json')):
        old = json.load(open(os.path.join(dst, 'meta.json')))
    base_tests = None if skip_tests else tests()
    rc0, out0 = sh(f'{PY} {dst}/demo.py', cwd=REPO, timeout=300)
    meta['demo_clean_exit'] = rc0
    rc, out = sh(f'git apply {dst}/patch.diff', cwd=REPO)
    if rc != 0:
        meta['apply_failed'] = out[-500:]
        json.dump(meta, open(os.path.join(dst, 'meta.json'), 'w'), indent=1)
        print('apply failed', out)
        return 1
    try:
        rc1, out1 = sh(f'{PY} {dst}/demo.py', cwd=REPO, timeout=300)
        meta['demo_patched_exit'] = rc1
        meta['demo_patched_tail'] = out1[-400:]
        meta['tests_unchanged'] = old.get('tests_unchanged', False) if skip_tests else (tests() == base_tests)
        det = {}
        for c in checks:
            rc2, out2 = sh(f'VERIF_REPO={REPO} ./check {c} quick', cwd=VERIF, timeout=3000)
            viol = [l for l in out2.splitlines() if l.startswith('VIOLATION')]
            det[c] = {'exit': rc2, 'violation_lines': viol, 'tail': out2[-300:]}
            meta['ran'].append(f'./check {c} quick')
        new_det = set(c for c, d in det.items() if d['exit'] != 0 and d['violation_lines'])
        # a re-validation runs only the checks named; detections recorded earlier for other checks are kept
        meta['detected_by'] = sorted(new_det | (set(old.get('detected_by') or []) - set(checks)))
        meta['check_results'] = dict(old.get('check_results') or {}, **det)
    finally:
        sh('git checkout -- .', cwd=REPO)
        sh('git clean -fdq -- wal wawk', cwd=REPO)
    notes = open(os.path.join(dst, 'notes.md')).read() if os.path.exists(os.path.join(dst, 'notes.md')) else ''
    meta['needs_to_manifest'] = notes[:1500]
    meta['valid'] = meta['demo_clean_exit'] == 0 and meta.get('demo_patched_exit', 0) != 0 and meta.get('tests_unchanged', False)
    json.dump(meta, open(os.path.join(dst, 'meta.json'), 'w'), indent=1)
    print(name, 'valid=%s' % meta['valid'], 'detected_by=%s' % meta.get('detected_by'),
          {c: (d['exit'], d['violation_lines'][:1]) for c, d in meta.get('check_results', {}).items()})
    return 0


if __name__ == '__main__':
    sys.exit(main())
