#!/usr/bin/env python3
"""probe.py — run ad-hoc sessions through implementation and model, print both.
usage: tools/probe.py [--vcd file.vcd] [--mode evalstr|barestr|runstr] 'expr' 'expr' ...
Each expr is evaluated in the same session, in order."""
import json
import os
import sys
HERE = os.path.dirname(os.path.dirname(os.path.abspath(__file__)))
sys.path.insert(0, os.path.join(HERE, 'harness'))
import lib  # noqa: E402


def main():
    args = sys.argv[1:]
    cmds = []
    mode = 'evalstr'
    sep = False
    exprs = []
    while args:
        a = args.pop(0)
        if a == '--vcd':
            p = args.pop(0)
            tid = 'DEFAULT'
            if ':' in p:
                p, tid = p.split(':')
            cmds.append(['file', os.path.basename(p), open(p).read()])
            cmds.append(['load', os.path.basename(p), tid])
        elif a == '--mode':
            mode = args.pop(0)
        elif a == '--sep':
            sep = True
        else:
            exprs.append(a)
    cases = []
    if sep:
        for e in exprs:
            cases.append({'id': len(cases), 'cmds': cmds + [[mode, '111', e]]})
    else:
        cases.append({'id': 0, 'cmds': cmds + [[mode, '111', e] for e in exprs]})
    lib.Build().run()
    for case, impl, mout, cmp in lib.run_sessions(cases):
        print('CASE', [c[2] if c[0] not in ('file', 'load') else c[0] for c in case['cmds']])
        print(' impl :', impl.get('results'), impl.get('final'), impl.get('crash'))
        print(' model:', mout)
        print(' cmp  :', cmp)


if __name__ == '__main__':
    main()
