#!/venv/bin/python
"""translate.py — regenerate coq/Generated.v from /repo on every run.

Everything in WAL that is *data* is translated, fail-closed:
  * wal/libs/std/std.wal and module.wal, parsed by the repository's own
    reader and dumped as Gallina [val] terms;
  * the values of the Operator enum (wal/ast_defs.py);
  * Trace.SPECIAL_SIGNALS (wal/trace/trace.py).
Theorems about library forms are proved about these generated terms, and the
hand-written operator list / special-signal list of the model are compared
with the generated ones by proof obligations (coq/proofs/Obligations.v).

Usage: translate.py <repo> <out.v>      (writes only if the content changed)
"""
import os
import re
import struct
import sys

VERIF = os.path.dirname(os.path.dirname(os.path.abspath(__file__)))


def op_constructors():
    """operator text -> Coq constructor, read from coq/Ast.v (single source)"""
    src = open(os.path.join(VERIF, 'coq', 'Ast.v'), encoding='utf-8').read()
    body = src[src.index('Definition op_name'):]
    body = body[:body.index('end.')]
    table = {}
    for m in re.finditer(r'\|\s*(O\w+)\s*=>\s*"([^"]*)"', body):
        table[m.group(2)] = m.group(1)
    return table


def coq_string(s):
    data = s.encode('utf-8')
    if all(32 <= b <= 126 for b in data):
        return '"' + s.replace('"', '""') + '"'
    return '(str_of_codes [' + '; '.join(str(b) for b in data) + ']%nat)'


def coq_Z(z):
    return f'({z})' if z < 0 else str(z)


def make_dumper(repo):
    sys.path.insert(0, repo)
    from wal.ast_defs import Operator, Symbol, WList, Unquote, UnquoteSplice
    ops = op_constructors()

    def dump(e):
        if isinstance(e, bool):
            return 'VBool true' if e else 'VBool false'
        if isinstance(e, int):
            return f'VInt {coq_Z(e)}'
        if isinstance(e, float):
            bits = struct.unpack('>Q', struct.pack('>d', e))[0]
            return f'VFloat (f_of_bits {bits})'
        if isinstance(e, str):
            return f'VStr {coq_string(e)}'
        if isinstance(e, Symbol):
            if e.steps is None:
                return f'VSym {coq_string(e.name)} None'
            return f'VSym {coq_string(e.name)} (Some {e.steps}%nat)'
        if isinstance(e, Operator):
            if e.value not in ops:
                raise SystemExit(f'translate: operator {e.value!r} unknown to coq/Ast.v')
            return f'VOp {ops[e.value]}'
        if isinstance(e, WList):
            return 'VList true [' + '; '.join(dump(x) for x in e) + ']'
        if isinstance(e, list):
            return 'VList false [' + '; '.join(dump(x) for x in e) + ']'
        if isinstance(e, Unquote):
            return f'VUnq ({dump(e.content)})'
        if isinstance(e, UnquoteSplice):
            return f'VUnqS ({dump(e.content)})'
        raise SystemExit(f'translate: cannot translate {type(e).__name__}: {e!r}')
    return dump


def grammar_rules(text):
    """a Lark grammar text -> {rule name: (prefix, [alternative as list of items])}; items are rule/terminal names,
    quoted literals (kept with their quotes), regular expressions or punctuation of the EBNF; aliases are dropped"""
    rules = {}
    cur = None
    for raw in text.splitlines():
        st = raw.strip()
        if not st or st.startswith('//'):
            continue
        if st.startswith('%'):
            cur = None
            continue
        m = re.match(r'^([?!]?)([A-Za-z_][A-Za-z_0-9]*)\s*:\s*(.*)$', st)
        if m:
            cur = m.group(2)
            rules[cur] = (m.group(1), [])
            body = m.group(3)
        elif st.startswith('|') and cur is not None:
            body = st[1:]
        else:
            raise SystemExit('translate: cannot read grammar line %r' % raw)
        for alt in split_alternatives(body):
            alt = re.sub(r'->\s*\w+\s*$', '', alt).strip()
            if alt:
                items = re.findall(r'"(?:[^"\\]|\\.)*"|/(?:[^/\\]|\\.)+/|[A-Za-z_][A-Za-z_0-9]*|[()\[\]|*+?]', alt)
                if ''.join(items) != re.sub(r'\s+', '', alt):
                    raise SystemExit('translate: cannot split grammar alternative %r' % alt)
                rules[cur][1].append(items)
    return rules


def split_alternatives(body):
    """split at top-level | (not inside parentheses, brackets or quotes)"""
    out, depth, cur, q = [], 0, '', False
    for ch in body:
        if ch == '"':
            q = not q
        if not q and ch in '([':
            depth += 1
        if not q and ch in ')]':
            depth -= 1
        if ch == '|' and depth == 0 and not q:
            out.append(cur)
            cur = ''
        else:
            cur += ch
    out.append(cur)
    return out


WAWK_EXPR_RULES = ['expr', 'or_s', 'a_or_s', 'and_s', 'a_and_s', 'comp', 'a_comp', 'sum_s', 'a_sum_s', 'mul', 'a_mul', 'neg', 'a_neg',
                   'u_op', 'm_d_op', 'a_s_op', 'comp_op', 'and_op', 'or_op', 'base_symbol', 'fcall', 'string']


def main():
    repo, out = sys.argv[1], sys.argv[2]
    dump = make_dumper(repo)
    from wal.ast_defs import Operator
    from wal.trace.trace import Trace
    from wal.reader import read_wal_sexprs

    def forms(rel):
        path = os.path.join(repo, rel)
        with open(path, encoding='utf-8') as f:
            return list(read_wal_sexprs(f.read(), path))

    parts = ['(* GENERATED by gen/translate.py from /repo — do not edit *)',
             'From WalModel Require Import Ast.',
             'Open Scope string_scope. Open Scope Z_scope.', '']
    parts.append('Definition operator_values : list string :=\n  [' +
                 ';\n   '.join(coq_string(o.value) for o in Operator) + '].\n')
    parts.append('Definition special_signals_gen : list string :=\n  [' +
                 '; '.join(coq_string(s) for s in Trace.SPECIAL_SIGNALS) + '].\n')
    parts.append('Definition scope_separator_gen : string := ' + coq_string(Trace.SCOPE_SEPERATOR) + '.\n')
    for name, rel in (('std_forms', 'wal/libs/std/std.wal'), ('module_forms', 'wal/libs/std/module.wal')):
        fs = forms(rel)
        parts.append(f'Definition {name} : list val :=\n  [' + ';\n   '.join(dump(f) for f in fs) + '].\n')
    from wawk.parser import WAWK_GRAMMAR
    rules = grammar_rules(WAWK_GRAMMAR)
    rows = []
    for name in WAWK_EXPR_RULES:
        if name not in rules:
            raise SystemExit('translate: the WAWK grammar has no rule %s' % name)
        prefix, alts = rules[name]
        rows.append('(%s, %s, [%s])' % (coq_string(name), coq_string(prefix),
                                        '; '.join('[' + '; '.join(coq_string(it) for it in alt) + ']' for alt in alts)))
    parts.append('(* the expression rules of wawk/parser.py WAWK_GRAMMAR: name, prefix (? inline, ! keep tokens), alternatives *)\n'
                 'Definition wawk_expression_rules : list (string * string * list (list string)) :=\n  [' + ';\n   '.join(rows) + '].\n')
    atom = rules.get('atom')
    if atom is None:
        raise SystemExit('translate: the WAWK grammar has no rule atom')
    parts.append('Definition wawk_atom_alternatives : list (list string) :=\n  [' +
                 '; '.join('[' + '; '.join(coq_string(it) for it in alt) + ']' for alt in atom[1]) + '].\n')
    ignores = re.findall(r'^\s*%ignore\s+(\w+)', WAWK_GRAMMAR, flags=re.M)
    m = re.search(r'^\s*COMMENT\s*:\s*(\S.*?)\s*$', WAWK_GRAMMAR, flags=re.M)
    if not m:
        raise SystemExit('translate: the WAWK grammar has no COMMENT terminal')
    parts.append('Definition wawk_ignored : list string := [' + '; '.join(coq_string(x) for x in ignores) + '].\n')
    parts.append('Definition wawk_comment_terminal : string := ' + coq_string(m.group(1)) + '.\n')
    text = '\n'.join(parts)
    old = None
    if os.path.exists(out):
        old = open(out, encoding='utf-8').read()
    if old != text:
        with open(out + '.tmp', 'w', encoding='utf-8') as f:
            f.write(text)
        os.replace(out + '.tmp', out)
        print('translate: Generated.v updated')
    else:
        print('translate: Generated.v unchanged')


if __name__ == '__main__':
    main()
