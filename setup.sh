#!/bin/sh
# setup: build the Coq development (model + proofs), extract, compile the driver. Offline.
set -e
cd "$(dirname "$0")"
python3 - <<'PY'
import sys
sys.path.insert(0, 'harness')
import lib
b = lib.Build().run()
print(b.log[-2000:])
print('model built:', b.ok_model, 'failed files:', b.failed_files)
sys.exit(0 if b.ok_model and not b.failed_files else 1)
PY
