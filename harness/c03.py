"""C03 — relative evaluation e@k is exact and position-neutral."""
import lib
import gen

PID = 'C03'
RULE = ('each evaluation is one (expression e, start index i, offset k) triple on one or two generated traces: (reval e k) at i is '
        'compared with e evaluated after explicitly stepping to i+k (oracle, same interpreter), indices before/after are compared, '
        'out-of-range offsets must give #f without evaluating e (print-instrumented), (e@j)@k is compared with e@(j+k), and for e that steps a trace itself the positions after e@k must be the positions before; 17..24 relative evaluations nested in each other restore every position; every '
        'command is also run on the extracted Coq model. distinct = distinct (e,i,k); non-trivial = e reads a signal or INDEX/TS')


def idx_expr(tids, multi):
    if multi:
        return '(list ' + ' '.join(t + '^INDEX' for t in tids) + ')'
    return '(list INDEX)'


def gen_case(rng, cid, two, per):
    infos = {}
    cmds = []
    tids = ['a', 'b'] if two else ['DEFAULT']
    for t in tids:
        text, info = gen.simple_trace(rng, n=rng.randrange(1, 8))
        cmds += [['file', t + '.vcd', text], ['load', t + '.vcd', t]]
        infos[t] = info
    fr = gen.Frag(rng, infos)
    setup = fr.func_defs()
    if not two:
        setup.append('(defsig vs (+ %s 1))' % fr.sig())
        setup.append('(defsig vn (reval %s 1))' % fr.sig())
        fr.vsigs = ['vs', 'vn']
    for s in setup:
        cmds.append(['evalstr', '111', s])
    nset = len(cmds)
    checks = []          # (kind, positions in results..., description)
    N = fr.N
    minlen = min(i['n'] for i in infos.values())
    ie = idx_expr(tids, two)
    for _ in range(per):
        e = fr.expr(rng.choice([1, 2, 3]))
        i = rng.randrange(0, minlen)
        k = rng.randrange(-(N + 1), N + 2)
        inr = all(0 <= i + k <= infos[t]['n'] - 1 for t in tids)
        base = len(cmds)
        cmds.append(['evalstr', '111', f'(step {i})'])
        cmds.append(['evalstr', '111', f'(list (reval (do (print "E") {e}) {k}) {ie})'])
        if inr:
            cmds.append(['evalstr', '111', f'(step {k})'])
            cmds.append(['evalstr', '111', f'(list (do (print "E") {e}) {ie})'])
            cmds.append(['evalstr', '111', f'(step {-k})'])
            checks.append(('inrange', base, e, i, k))
        else:
            checks.append(('outrange', base, e, i, k))
        # composition
        j = rng.choice([-3, -2, -1, 1, 2, 3])
        if rng.random() < 0.5:
            j = -k if k else j          # come back into range through an out-of-range intermediate position
        b2 = len(cmds)
        if inr and all(0 <= i + k + j <= infos[t]['n'] - 1 for t in tids):
            cmds.append(['evalstr', '111', f'(list (reval (reval {e} {j}) {k}) (reval {e} {j + k}) {ie})'])
            checks.append(('compose', b2, e, i, (j, k)))
        else:
            cmds.append(['evalstr', '111', f'(list (reval (reval {e} {j}) {k}) #f {ie})'])
            checks.append(('compose', b2, e, i, (j, k)))
        # e moves the index itself: afterwards every trace must stand where it stood before (the saved positions win)
        if rng.random() < 0.4:
            s_ = rng.choice([1, 2, -1, 3])
            stp = f'(step {rng.choice(tids)} {s_})' if two and rng.random() < 0.7 else f'(step {s_})'
            b3 = len(cmds)
            cmds.append(['evalstr', '111', f'(list (reval (do {stp} {e}) {k}) {ie})'])
            checks.append(('moving', b3, f'(do {stp} {e})', i, k))
        # deep nesting: 17..24 relative evaluations inside each other, alternating +1 / -1; every one restores its position
        if rng.random() < 0.25 and minlen >= 2:
            d = rng.randrange(17, 25)
            first = 1 if i + 1 <= minlen - 1 else -1
            offs = [first if q % 2 == 0 else -first for q in range(d)]      # outermost first
            net = sum(offs)
            deep = e
            for o in reversed(offs):
                deep = f'(reval {deep} {o})'
            b4 = len(cmds)
            cmds.append(['evalstr', '111', f'(list {deep} (reval {e} {net}) {ie})'])
            checks.append(('deep', b4, e, i, d))
        # two traces standing at different indices: each trace is tested against its own range, and e@k is e with every
        # trace moved by k from where it stands
        if two and rng.random() < 0.6:
            d = rng.choice([1, 2, 3, -1, -2])
            na, nb = infos['a']['n'], infos['b']['n']
            if 0 <= i + d <= na - 1:
                inr2 = 0 <= i + d + k <= na - 1 and 0 <= i + k <= nb - 1
                b5 = len(cmds)
                cmds.append(['evalstr', '111', f'(step a {d})'])
                cmds.append(['evalstr', '111', f'(list (reval {e} {k}) {ie})'])
                if inr2:
                    cmds.append(['evalstr', '111', f'(step {k})'])
                    cmds.append(['evalstr', '111', f'(list {e} {ie})'])
                    cmds.append(['evalstr', '111', f'(step {-k})'])
                cmds.append(['evalstr', '111', f'(step a {-d})'])
                checks.append(('skew', b5, e, (i, d), (k, inr2)))
        cmds.append(['evalstr', '111', f'(step {-i})'])
    return {'id': cid, 'cmds': cmds, 'checks': checks, 'tids': tids}


def split_list(tok):
    """'ok ( a b c )' protocol list -> top-level element strings"""
    t = tok.split()
    assert t[0] == 'ok' and t[1] in '([', tok
    out, depth, cur = [], 0, []
    for x in t[2:-1]:
        cur.append(x)
        if x in '([':
            depth += 1
        elif x in ')]':
            depth -= 1
        if depth == 0 and x not in ('U', 'V', 'A'):
            out.append(' '.join(cur))
            cur = []
    return out


def oracle(case, impl):
    res = impl.get('results') or []
    n = len(case['tids'])
    outs = None
    for chk in case['checks']:
        kind, base, e, i, k = chk
        try:
            if kind == 'inrange':
                if len(res) <= base + 4:
                    return f'session stopped at {res[-1:]} (e={e} i={i} k={k})'
                if not res[base + 1].startswith('ok') or not res[base + 3].startswith('ok'):
                    continue
                a = split_list(res[base + 1])
                b = split_list(res[base + 3])
                if lib.canon(a[0]) != lib.canon(b[0]):
                    return f'(reval {e} {k}) at index {i} = {a[0]} but e at {i + k} = {b[0]}'
                want = '( ' + 'I%d ' % i * n + ')'
                if lib.canon(a[1]) != lib.canon(want):
                    return f'indices after (reval {e} {k}) at {i}: {a[1]} expected {want}'
            elif kind == 'outrange':
                if len(res) <= base + 1:
                    return f'session stopped at {res[-1:]} (e={e} i={i} k={k})'
                want = 'ok ( B0 ( ' + 'I%d ' % i * n + ') )'
                if lib.canon(res[base + 1]) != lib.canon(want):
                    return f'(reval {e} {k}) at index {i} out of range gave {res[base + 1]} expected {want}'
            elif kind == 'moving':
                if len(res) <= base or not res[base].startswith('ok'):
                    continue
                a = split_list(res[base])
                want = '( ' + 'I%d ' % i * n + ')'
                if lib.canon(a[1]) != lib.canon(want):
                    return f'indices after (reval {e} {k}) at {i}, where e moves a trace itself: {a[1]} expected {want} (positions must be restored whatever e did)'
            elif kind == 'skew':
                (i0, d), (k0, inr2) = i, k
                where = f'with trace a at {i0 + d} and trace b at {i0}'
                if len(res) <= base + 1:
                    return f'session stopped at {res[-1:]} (e={e} {where} k={k0})'
                want = f'( I{i0 + d} I{i0} )'
                if inr2:
                    if len(res) <= base + 3 or not res[base + 1].startswith('ok') or not res[base + 3].startswith('ok'):
                        continue
                    a = split_list(res[base + 1])
                    b = split_list(res[base + 3])
                    if lib.canon(a[0]) != lib.canon(b[0]):
                        return f'(reval {e} {k0}) {where} = {a[0]} but e after moving both traces by {k0} = {b[0]} (the offset is inside both traces)'
                    if lib.canon(a[1]) != lib.canon(want):
                        return f'indices after (reval {e} {k0}) {where}: {a[1]} expected {want}'
                elif lib.canon(res[base + 1]) != lib.canon('ok ( B0 ' + want + ' )'):
                    return f'(reval {e} {k0}) {where}, out of range for one trace, gave {res[base + 1]} expected #f and positions {want}'
            elif kind == 'deep':
                if len(res) <= base or not res[base].startswith('ok'):
                    continue
                a = split_list(res[base])
                want = '( ' + 'I%d ' % i * n + ')'
                if lib.canon(a[0]) != lib.canon(a[1]) or lib.canon(a[2]) != lib.canon(want):
                    return (f'{k} relative evaluations nested in each other (offsets alternating +1/-1) around e={e} at index {i}: value {a[0]} '
                            f'expected {a[1]}, indices afterwards {a[2]} expected {want}')
            else:
                if len(res) <= base or not res[base].startswith('ok'):
                    continue
                a = split_list(res[base])
                if lib.canon(a[0]) != lib.canon(a[1]):
                    return f'((e@{k[0]})@{k[1]}) = {a[0]} but e@{k[0] + k[1]} = {a[1]} for e={e} at {i}'
        except (AssertionError, IndexError) as ex:
            return f'unparsable observation {ex!r}'
    # out-of-range must not evaluate e: count printed E's
    final = impl.get('final', '')
    if final.startswith('END'):
        printed = lib.final_fields(final)['out_text'].count('E')
        want = sum(2 if c[0] == 'inrange' else 0 for c in case['checks'])
        if printed != want:
            return f'e evaluated {printed} times, expected {want} (out-of-range reval must not evaluate e)'
    return None


def run(tier, seed, replay=None):
    rep = lib.Report(PID, tier, seed)
    build = lib.Build().run()
    rep.proof = lib.compile_props(PID)
    rng = lib.rng_for(seed, PID)
    n = 64 if tier == 'quick' else 12800
    cases = [gen_case(rng, c, two=(c % 3 == 2), per=12) for c in range(n)]
    results = lib.run_sessions(cases)
    lib.std_checks(rep, results, oracle)
    for c in cases:
        for chk in c['checks']:
            rep.count(chk[0])
            if any(ch.isalpha() for ch in chk[2]):
                rep.nontrivial((chk[2], chk[3], chk[4]))
    rep.evaluations = sum(len(c['checks']) for c in cases)
    rep.samples = [f'e={chk[2]} i={chk[3]} k={chk[4]} ({chk[0]})' for c in cases[:3] for chk in c['checks'][:2]]
    return lib.finish(rep, build, level='proof', rule=RULE, assumptions=[
        'e is from the trace-reading fragment and completes successfully; no sample-at/trim/load/unload inside e',
        'virtual signals are exercised with a single trace (tid-qualified virtual signals are not addressable in the implementation)'])
