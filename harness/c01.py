"""C01 — VCD fidelity."""
import lib
import gen

PID = 'C01'
RULE = ('each evaluation is one generated VCD document (scope tree depth <= 4, 1..10 variables, adversarial and shared '
        'identifier codes, widths 1..200, 0..10 timestamps, changes before the first timestamp, $dumpvars blocks, comments, '
        'random whitespace layout) loaded through Wal.load and observed through SIGNALS, SCOPES, MAX-INDEX and, at every '
        'index, INDEX/TS, every signal and signal-width; compared with (a) an independent denotation of the document and '
        '(b) the extracted Coq parser. distinct = distinct token lists; non-trivial = at least one variable and one timestamp')


def expect_dump(den):
    out = 'max=%d ts=%s scopes=%s signals=' % (
        len(den['ts']) - 1, ''.join('%d,' % t for t in den['ts']), ''.join(lib.hx(s) + ',' for s in den['scopes']))
    for s in den['signals']:
        out += '%s:%s:%s ' % (lib.hx(s), den['widths'][s], ''.join(lib.ser_py(v) + ',' for v in den['values'][s]))
    return 'ok ' + out


MALFORMED = [
    '', '$enddefinitions', '$scope module top $end $var wire 1 ! a $end', '$var wire 1 ! a $end $enddefinitions $end #0 b1',
    '$var wire x ! a $end $enddefinitions $end', '$var wire 1 ! a b c $end $enddefinitions $end',
    '$upscope $end $enddefinitions $end', '$comment never closed', '$enddefinitions $end #x', '$enddefinitions $end #1 #2 1!',
    '$var wire 1 ! a $end $enddefinitions $end $comment open',
]


def run(tier, seed, replay=None):
    rep = lib.Report(PID, tier, seed)
    build = lib.Build().run()
    rep.proof = lib.compile_props(PID)
    rng = lib.rng_for(seed, PID)
    n = 150 if tier == 'quick' else 48000
    cases = []
    for c in range(n):
        doc = gen.gen_vcd_doc(rng)
        toks = gen.vcd_tokens(doc)
        text = gen.layout(toks, rng, simple=rng.random() < 0.2)
        den = gen.denote_vcd(doc)
        cases.append({'id': c, 'cmds': [['file', 't.vcd', text], ['load', 't.vcd', 'DEFAULT'], ['dump', 'DEFAULT']],
                      'expect': expect_dump(den), 'toks': toks, 'nontrivial': bool(den['signals']) and bool(den['ts'])})
    for t in MALFORMED:
        cases.append({'id': len(cases), 'cmds': [['file', 't.vcd', t], ['load', 't.vcd', 'DEFAULT']],
                      'expect': None, 'toks': t.split(), 'nontrivial': False})
    if replay:
        import json
        cases = [f['case'] for f in json.load(open(replay)).get('failures', [])] or cases

    def oracle(case, impl):
        if case['expect'] is None:
            return None
        res = impl.get('results') or []
        if len(res) < 3:
            if not case['nontrivial'] and len(case['toks']) and not any(t.startswith('#') for t in case['toks']):
                pass
            # a document without timestamps has MAX-INDEX -1: observation through the evaluator is impossible
            if not any(t.startswith('#') for t in case['toks']):
                return None
            return 'load or observation failed: ' + repr(res[-1:])[:200]
        got = res[2]
        if lib.canon(got) != lib.canon(case['expect']):
            return 'observed %s expected %s' % (got[:400], case['expect'][:400])
        return None

    results = lib.run_sessions(cases)
    lib.std_checks(rep, results, oracle)
    for case in cases:
        rep.count('vars=%d' % min(len(case.get('toks', [])) // 20, 9))
        if case['nontrivial']:
            rep.nontrivial(case['toks'])
    rep.samples = [' '.join(c['toks'])[:300] for c in cases[:3]]
    return lib.finish(rep, build, level='proof', rule=RULE, assumptions=[
        'well-formed documents as generated (wf in coq/props/C01.v): id codes printable non-space, not $-keywords; values over 01xzXZ; '
        'lower-case b vectors; names one token; same-code variables have equal width',
        'real-valued (r) changes, names containing spaces, and a separate [n] index token are outside the claim'])
