"""lib.py — shared machinery of the checks: build, worker pools, diff,
verdict, evidence.  Python 3 standard library only."""
import fcntl
import hashlib
import json
import os
import random
import re
import subprocess
import sys
import time

VERIF = os.path.dirname(os.path.dirname(os.path.abspath(__file__)))
REPO = os.environ.get('VERIF_REPO', '/repo')
PY = '/venv/bin/python'
COQ = os.path.join(VERIF, 'coq')
NPROC = int(os.environ.get('VERIF_JOBS', '0')) or min(16, os.cpu_count() or 4)

TRUSTED_BASE = [
    'Coq 8.16.1 kernel (coqc); vm_compute used for finite sweeps and in-Coq replay; no native_compute',
    'no axioms declared by the development; Print Assumptions output of each property theorem is checked on every run',
    'extraction: ExtrOcamlBasic + ExtrOcamlString only (bool/option/unit/list/prod/sumbool -> OCaml natives, ascii -> char, string -> char list); Z/N/positive/nat stay inductive; OCaml 4.13.1 ocamlopt',
    'ocaml/driver.ml: reads a line, calls Model.run_line, prints the result (no logic)',
    'gen/translate.py + the repository reader: std.wal/module.wal/Operator enum/SPECIAL_SIGNALS/WAWK expression grammar rules -> coq/Generated.v on every run',
    'correspondence harness (harness/*.py): generators, canonicalisation, diff',
    'modelled, not verified: Python int/str/dict/list semantics, re.sub on three fixed patterns, int(s,base), str.split/strip, float arithmetic as IEEE binary64 (Coq SpecFloat), Lark, pickle, argparse, file I/O',
]


def log(*a):
    print(*a, file=sys.stderr, flush=True)


# ---------------------------------------------------------------- build
def sh(cmd, cwd=None, timeout=1800, env=None):
    e = dict(os.environ)
    if env:
        e.update(env)
    p = subprocess.run(cmd, shell=True, cwd=cwd, stdout=subprocess.PIPE, stderr=subprocess.STDOUT,
                       timeout=timeout, env=e, text=True, errors='replace')
    return p.returncode, p.stdout


def file_hash(path):
    try:
        with open(path, 'rb') as f:
            return hashlib.sha256(f.read()).hexdigest()
    except FileNotFoundError:
        return None


class Build:
    """translate + make (model and proofs) + extraction + driver, under a lock"""

    def __init__(self):
        self.ok_model = False
        self.failed_files = []
        self.log = ''
        self.generated_changed = False

    def run(self):
        os.makedirs(os.path.join(VERIF, '.run'), exist_ok=True)
        lock = open(os.path.join(COQ, '.lock'), 'w')
        fcntl.flock(lock, fcntl.LOCK_EX)
        try:
            self._run()
        finally:
            fcntl.flock(lock, fcntl.LOCK_UN)
            lock.close()
        return self

    def _run(self):
        rc, out = sh(f'PYTHONPATH={REPO} PYTHONHASHSEED=0 {PY} gen/translate.py {REPO} coq/Generated.v',
                     cwd=VERIF, timeout=120)
        self.log += out
        self.translate_ok = rc == 0
        self.generated_changed = 'updated' in out
        if rc != 0:
            return
        if not os.path.exists(os.path.join(COQ, 'Makefile')):
            sh('coq_makefile -f _CoqProject -o Makefile', cwd=COQ)
        rc, out = sh(f'timeout 3000 make -k -j{NPROC}', cwd=COQ, timeout=3100)
        self.log += out
        self.failed_files = sorted(set(re.findall(r'\*\*\* \[[^\]]*?: (\S+?)\.vo\]', out)))
        model_ml = os.path.join(COQ, 'model.ml')
        drv = os.path.join(VERIF, 'ocaml', 'driver')
        stamp = os.path.join(VERIF, 'ocaml', 'model.sha')
        h = file_hash(model_ml)
        if h is None:
            return
        old = open(stamp).read() if os.path.exists(stamp) else ''
        if old != h or not os.path.exists(drv):
            rc, out = sh('cp ../coq/model.ml ../coq/model.mli . && '
                         'ocamlfind ocamlopt -O3 -w -a model.mli model.ml driver.ml -o driver',
                         cwd=os.path.join(VERIF, 'ocaml'), timeout=600)
            self.log += out
            if rc != 0:
                return
            with open(stamp, 'w') as f:
                f.write(h)
        self.ok_model = 'Cases' not in self.failed_files and 'Extract' not in self.failed_files


FORBIDDEN = re.compile(r'\b(Admitted|admit|Axiom|Parameter|Conjecture|Unset Guard|bypass_check|'
                       r'type-in-type|impredicative-set|Admit Obligations)\b')


def audit_sources():
    """forbidden vocabulary anywhere in the development (comments included)"""
    hits = []
    for root, _, files in os.walk(COQ):
        for fn in files:
            if fn.endswith('.v') and not fn.startswith('cases_'):
                path = os.path.join(root, fn)
                for n, line in enumerate(open(path, encoding='utf-8', errors='replace'), 1):
                    if FORBIDDEN.search(line):
                        hits.append(f'{os.path.relpath(path, VERIF)}:{n}: {line.strip()}')
    return hits


def compile_props(pid):
    """compile coq/props/<pid>.v, return (ok, theorems, output).
    theorems: list of (name, assumptions-text)."""
    src = os.path.join(COQ, 'props', f'{pid}.v')
    if not os.path.exists(src):
        return False, [], 'missing ' + src
    rc, out = sh(f'timeout 900 coqc -Q . WalModel props/{pid}.v', cwd=COQ, timeout=1000)
    thms = []
    # Print Assumptions output: either "Closed under the global context" or "Axioms:\n..."
    names = re.findall(r'^\s*Print Assumptions (\S+)\.', open(src).read(), re.M)
    blocks = re.split(r'(?=Closed under the global context|Axioms:)', out)
    blocks = [b.strip() for b in blocks if b.strip().startswith(('Closed', 'Axioms:'))]
    for i, n in enumerate(names):
        thms.append((n, blocks[i] if i < len(blocks) else 'MISSING'))
    ok = rc == 0 and len(blocks) == len(names) and len(names) > 0
    return ok, thms, out


ALLOWED_AXIOM_PREFIXES = ()   # every property theorem is expected to be closed


def assumptions_ok(text):
    return text.startswith('Closed under the global context')


# ---------------------------------------------------------------- workers
class Pool:
    """N line-oriented subprocesses; cases are sharded round-robin"""

    def __init__(self, argv, n, env=None, cwd=None, line_timeout=120):
        self.procs = []
        e = dict(os.environ)
        if env:
            e.update(env)
        self.argv, self.env, self.cwd, self.line_timeout = argv, e, cwd, line_timeout
        for _ in range(n):
            self.procs.append(self._spawn())

    def _spawn(self):
        return subprocess.Popen(self.argv, stdin=subprocess.PIPE, stdout=subprocess.PIPE,
                                stderr=subprocess.DEVNULL, env=self.env, cwd=self.cwd, text=True, bufsize=1)

    def map(self, lines):
        """send lines, collect one output line per input line, preserving order"""
        n = len(self.procs)
        shards = [[] for _ in range(n)]
        for i, ln in enumerate(lines):
            shards[i % n].append((i, ln))
        out = [None] * len(lines)
        import threading

        import select

        def work(k, shard):
            for i, ln in shard:
                p = self.procs[k]
                try:
                    p.stdin.write(ln + '\n')
                    p.stdin.flush()
                    ready, _, _ = select.select([p.stdout], [], [], self.line_timeout)
                    if not ready:
                        # no answer in time: replace the process, report the case as not answered
                        p.kill()
                        self.procs[k] = self._spawn()
                        out[i] = 'CRASH timeout'
                        continue
                    out[i] = p.stdout.readline().rstrip('\n')
                    if out[i] == '' and p.poll() is not None:
                        self.procs[k] = self._spawn()
                        out[i] = 'CRASH died'
                except (BrokenPipeError, OSError):
                    out[i] = 'CRASH pipe'
                    self.procs[k] = self._spawn()
        ths = [threading.Thread(target=work, args=(k, s)) for k, s in enumerate(shards)]
        for t in ths:
            t.start()
        for t in ths:
            t.join()
        return out

    def close(self):
        for p in self.procs:
            try:
                p.stdin.close()
            except OSError:
                pass
        for p in self.procs:
            try:
                p.wait(timeout=10)
            except subprocess.TimeoutExpired:
                p.kill()


def impl_pool(n=None, repo=None):
    scratch = os.path.join(VERIF, '.run', 'scratch-%d' % os.getpid())
    os.makedirs(scratch, exist_ok=True)
    env = {'PYTHONPATH': repo or REPO, 'PYTHONHASHSEED': '0', 'VERIF_SCRATCH': scratch,
           'PYTHONDONTWRITEBYTECODE': '1'}
    return Pool([PY, os.path.join(VERIF, 'harness', 'impl_worker.py')], n or NPROC, env=env, line_timeout=400)


def model_pool(n=None):
    return Pool(['/bin/sh', '-c', 'ulimit -s unlimited 2>/dev/null; exec ' +
                 os.path.join(VERIF, 'ocaml', 'driver')], n or NPROC, line_timeout=60)


def cleanup_scratch():
    import shutil
    shutil.rmtree(os.path.join(VERIF, '.run', 'scratch-%d' % os.getpid()), ignore_errors=True)


# ---------------------------------------------------------------- diff
def canon(s):
    """list kind (WList vs list) is internal: compare modulo it"""
    if s is None:
        return None
    return ' '.join('[' if t == '(' else ']' if t == ')' else t for t in s.split())


def split_model(line):
    """model output 'r1 ;; r2 ;; END final' -> (results, final)"""
    parts = [p.strip() for p in line.split(' ;; ')]
    if not parts:
        return [], ''
    last = parts[-1]
    return parts[:-1], last


def strip_err_out(r):
    """'err E out=..' -> 'err E' (stdout is compared only for exits)"""
    if r.startswith('err ') and not r.startswith('err X'):
        return ' '.join(r.split()[:2])
    return r


def compare(impl, model_out):
    """returns None (agree), 'skip:<why>' or a description of the disagreement"""
    if impl.get('crash'):
        return 'skip:impl-crash ' + impl['crash']
    if impl.get('model_line') is None:
        return 'skip:no-model-line'
    if not model_out:
        return 'skip:model-no-output'
    if model_out.startswith('CRASH'):
        return 'skip:model-' + model_out
    mres, mfinal = split_model(model_out)
    ires, ifinal = impl['results'], impl['final']
    for k, (a, b) in enumerate(zip(ires, mres)):
        if b.startswith('unm') or b == 'fuel' or b == 'bad':
            return 'skip:model-' + b.split()[0]
        if a.startswith('err REC') or a.startswith('err TIMEOUT') or a.startswith('err READER'):
            return 'skip:impl-' + a.split()[1]
        if canon(strip_err_out(a)) != canon(strip_err_out(b)):
            return f'cmd {k}: impl={a!r} model={b!r}'
    if len(ires) != len(mres):
        return f'result count: impl={len(ires)} model={len(mres)} (impl last={ires[-1:]}, model={model_out[-200:]!r})'
    if ifinal.startswith('END') != mfinal.startswith('END'):
        return f'final: impl={ifinal!r} model={mfinal!r}'
    if ifinal.startswith('END') and canon(ifinal) != canon(mfinal):
        return f'final: impl={ifinal!r} model={mfinal!r}'
    return None


# ---------------------------------------------------------------- known findings
def load_known():
    path = os.path.join(VERIF, 'known_findings.json')
    if not os.path.exists(path):
        return []
    return json.load(open(path))


# ---------------------------------------------------------------- verdict / evidence
class Report:
    def __init__(self, pid, tier, seed):
        self.pid = pid
        self.tier = tier
        self.seed = seed
        self.t0 = time.time()
        self.evaluations = 0
        self.distinct = set()
        self.samples = []
        self.skips = {}
        self.mismatches = []        # correspondence (model vs impl)
        self.oracle_failures = []   # property violated on the implementation
        self.known_hits = []
        self.proof = None           # (ok, theorems)
        self.extra = {}
        self.dist = {}

    def count(self, key, n=1):
        self.dist[key] = self.dist.get(key, 0) + n

    def skip(self, why):
        k = why.split()[0]
        self.skips[k] = self.skips.get(k, 0) + 1

    def sample(self, x, limit=6):
        if len(self.samples) < limit:
            self.samples.append(x)

    def nontrivial(self, key):
        self.distinct.add(hashlib.sha1(repr(key).encode()).hexdigest())


def write_replay(pid, seed, payload):
    d = os.path.join(VERIF, 'replays')
    os.makedirs(d, exist_ok=True)
    n = 0
    while True:
        path = os.path.join(d, f'{pid}-{seed}-{n}.json')
        if not os.path.exists(path):
            break
        n += 1
    with open(path, 'w') as f:
        json.dump(payload, f, indent=1)
    return os.path.relpath(path, VERIF)


def finish(rep, build, level='proof', rule='', assumptions=None, technique_note=''):
    """decide, write evidence, print verdict lines, return exit code"""
    pid = rep.pid
    proof_ok, thms, proof_out = rep.proof if rep.proof else (False, [], '')
    audit = audit_sources()
    bad_assum = [(n, a) for n, a in thms if not assumptions_ok(a)]
    obligations = len(thms)
    discharged = sum(1 for n, a in thms if assumptions_ok(a)) if proof_ok else 0
    proof_fine = proof_ok and not bad_assum and not audit and build.ok_model and build.translate_ok
    coqchk_info = None
    if rep.tier == 'thorough' and proof_fine and not SEARCH_MODE:
        # independent re-check of the compiled property file and everything it depends on, with the axiom report
        rc, out = sh(f'timeout 2400 coqchk -silent -o -Q . WalModel WalModel.props.{pid}', cwd=COQ, timeout=2500)
        flat = ' '.join(out.split())
        if rc == 0 and 'Axioms: <none>' in flat and 'type-in-type: <none>' in flat and 'unsafe (co)fixpoints: <none>' in flat \
                and 'positivity is assumed: <none>' in flat:
            coqchk_info = {'ran': True, 'ok': True, 'axioms': '<none>'}
        elif rc == 124:
            coqchk_info = {'ran': False, 'ok': None, 'note': 'coqchk timed out (not a verdict)'}
        else:
            coqchk_info = {'ran': True, 'ok': False, 'output_tail': out[-1500:]}
            proof_fine = False

    exit_code = 0
    lines = []
    global DEFERRED
    if SEARCH_MODE and not rep.oracle_failures:
        # widened search run (see ./check): nothing new found on this seed
        cleanup_scratch()
        return 0
    known = [k for k in load_known() if k.get('property') == pid and k.get('status', 'open') == 'open']
    for k in rep.known_hits:
        if not SEARCH_MODE:
            lines.append(f'KNOWN-FINDING: property={pid} {k}')
    if rep.oracle_failures:
        path = write_replay(pid, rep.seed, {'kind': 'oracle-failure', 'property': pid,
                                            'failures': rep.oracle_failures[:5]})
        lines.append(f'VIOLATION property={pid} replay={path}')
        exit_code = 1
    elif rep.mismatches or not proof_fine:
        why = {}
        if rep.mismatches:
            why['correspondence'] = rep.mismatches[:5]
        if not proof_fine:
            why['proof'] = {
                'coqchk': coqchk_info,
                'props_compiled': proof_ok, 'failed_files': build.failed_files,
                'theorems': thms, 'audit_hits': audit, 'model_built': build.ok_model,
                'translate_ok': getattr(build, 'translate_ok', False),
                'coqc_output_tail': proof_out[-3000:], 'build_log_tail': build.log[-3000:]}
        path = write_replay(pid, rep.seed, {'kind': 'no-failing-input-found', 'property': pid,
                                            'no_longer_checks': why})
        # a proof obligation or the correspondence broke and this run has no concrete failing input: the line is
        # deferred so that ./check can first search further seeds for one (it prints the line if none turns up)
        DEFERRED = f'VIOLATION property={pid} replay={path} no-failing-input-found'
        exit_code = 1

    level = LEVELS.get(pid, level)
    cov = {
        'programs': max(rep.evaluations, 1),
        'disagreements_checked': len(rep.mismatches) + len(rep.oracle_failures),
        'obligations': max(obligations, 1),
        'discharged': discharged,
        'checker_cmd': f'cd coq && make -k && coqc -Q . WalModel props/{pid}.v   (via ./check {pid} {rep.tier})',
        'trusted_base': TRUSTED_BASE,
        'theorems': [{'name': n, 'assumptions': a} for n, a in thms],
        'evaluations': rep.evaluations,
        'distinct_nontrivial': len(rep.distinct),
        'rule': rule,
        'samples': rep.samples or ['(none)'],
        'input_distribution': rep.dist,
        'skipped': rep.skips,
        'correspondence_mismatches': len(rep.mismatches),
        'oracle_failures': len(rep.oracle_failures),
        'known_findings_hit': rep.known_hits,
        'generated_v_changed_this_run': build.generated_changed,
        'audit_hits': audit,
    }
    if coqchk_info is not None:
        cov['coqchk'] = coqchk_info
    cov.update(rep.extra)
    ev = {
        'property_id': pid, 'tier': rep.tier, 'seed': rep.seed, 'level': level,
        'coverage': cov,
        'assumptions': assumptions or [],
        'wall_s': round(time.time() - rep.t0, 2),
        'violations': 1 if exit_code else 0,
    }
    os.makedirs(os.path.join(VERIF, 'evidence'), exist_ok=True)
    with open(os.path.join(VERIF, 'evidence', f'{pid}.json'), 'w') as f:
        json.dump(ev, f, indent=1)
    for ln in lines:
        print(ln)
    print(f'{pid} {rep.tier}: proof_ok={proof_fine} obligations={obligations} discharged={discharged} '
          f'evaluations={rep.evaluations} distinct={len(rep.distinct)} mismatches={len(rep.mismatches)} '
          f'oracle_failures={len(rep.oracle_failures)} skipped={rep.skips} wall={ev["wall_s"]}s')
    cleanup_scratch()
    return exit_code


# claimed level per property (kept in step with tools/mkmanifest.py): a property is claimed at proof level only
# when coq/props/<id>.v states theorems about it
LEVELS = {}
SEARCH_MODE = False     # set by ./check while it searches further seeds for a concrete failing input
DEFERRED = None         # the no-failing-input-found line of the first run, printed by ./check after the search


def rng_for(seed, pid):
    return random.Random(f'{seed}-{pid}')


def env_seed():
    try:
        return int(os.environ.get('VERIF_SEED', '1'))
    except ValueError:
        return 1


# ---------------------------------------------------------------- sessions
def run_sessions(cases, ipool=None, mpool=None):
    """cases: list of {'id':..,'cmds':[...]} -> list of (case, impl, model_out, cmp)"""
    own_i = ipool is None
    own_m = mpool is None
    ipool = ipool or impl_pool()
    mpool = mpool or model_pool()
    try:
        raw = ipool.map([json.dumps(c) for c in cases])
        impl = []
        for r in raw:
            try:
                impl.append(json.loads(r))
            except (ValueError, TypeError):
                impl.append({'crash': 'worker died'})
        idx = [i for i, r in enumerate(impl) if r.get('model_line')]
        mout_part = mpool.map([impl[i]['model_line'] for i in idx])
        mout = [None] * len(cases)
        for i, o in zip(idx, mout_part):
            mout[i] = o
        return [(c, r, m, compare(r, m)) for c, r, m in zip(cases, impl, mout)]
    finally:
        if own_i:
            ipool.close()
        if own_m:
            mpool.close()


# ---------------------------------------------------------------- protocol helpers (harness side)
def hx(s):
    return s.encode('utf-8').hex()


def ser_py(v):
    """plain Python value -> protocol tokens (expected values computed by oracles)"""
    import struct
    if v is None:
        return 'N'
    if isinstance(v, bool):
        return 'B1' if v else 'B0'
    if isinstance(v, int):
        return 'I%d' % v
    if isinstance(v, float):
        return 'F%016x' % struct.unpack('>Q', struct.pack('>d', v))[0]
    if isinstance(v, str):
        return 'S' + hx(v)
    if isinstance(v, (list, tuple)):
        return '[ ' + ''.join(ser_py(x) + ' ' for x in v) + ']'
    if isinstance(v, dict):
        return 'A ( ' + ''.join('S' + hx(str(k)) + ' ' + ser_py(x) + ' ' for k, x in v.items()) + ')'
    raise TypeError(type(v))


def wal_string(s):
    """a WAL string literal for text s (reader side uses Python literal_eval)"""
    out = '"'
    for ch in s:
        if ch == '\\':
            out += '\\\\'
        elif ch == '"':
            out += '\\"'
        elif ch == '\n':
            out += '\\n'
        elif ch == '\t':
            out += '\\t'
        elif ch == '\r':
            out += '\\r'
        else:
            out += ch
    return out + '"'


def recheck_crash(rep, case, impl, mout, cmp):
    """a session whose implementation side ended outside the protocol is run once more on its own; if it crashes again
    the failure is recorded and None is returned, otherwise the fresh (case, impl, mout, cmp)"""
    if not impl.get('crash'):
        return case, impl, mout, cmp
    again = run_sessions([case])[0]
    if again[1].get('crash'):
        rep.oracle_failures.append({'case': case, 'impl': again[1],
                                    'why': 'the implementation could not run this session: ' + str(again[1]['crash'])[:300]})
        return None
    return again


def std_checks(rep, results, oracle=None):
    """shared loop: correspondence for every session + optional oracle(case, impl) -> None|str"""
    for case, impl, mout, cmp in results:
        rep.evaluations += 1
        r_ = recheck_crash(rep, case, impl, mout, cmp)
        if r_ is None:
            continue
        case, impl, mout, cmp = r_
        if cmp is None:
            pass
        elif cmp.startswith('skip:'):
            rep.skip(cmp[5:])
        else:
            rep.mismatches.append({'case': case, 'impl': impl, 'model': mout, 'diff': cmp})
        if oracle is not None and not impl.get('crash'):
            o = oracle(case, impl)
            if o:
                rep.oracle_failures.append({'case': case, 'impl': impl, 'why': o})


    if rep.tier == 'thorough' or os.environ.get('VERIF_INCOQ'):
        incoq_replay(rep, results)


def incoq_replay(rep, results, n=4):
    """cross-check of extraction: a few of the sessions the extracted binary ran are re-evaluated inside Coq
    (vm_compute on Cases.run_line) and must give the same output line"""
    cand = []
    for case, impl, mout, cmp in results:
        line = impl.get('model_line')
        if not line or not mout or mout.startswith('CRASH'):
            continue
        if any(ord(ch) < 32 or ord(ch) > 126 for ch in line + mout):
            continue
        cand.append((len(line), line, mout))
    cand.sort()
    cand = cand[:n]
    info = {'cases': len(cand), 'agree': 0, 'skipped': 0, 'differ': 0}
    procs = []
    for k, (_, line, mout) in enumerate(cand):
        name = f'cases_{rep.pid}_{os.getpid()}_{k}'
        path = os.path.join(COQ, name + '.v')
        q = lambda t: t.replace('"', '""')
        with open(path, 'w') as f:
            f.write('From WalModel Require Import Cases.\nLocal Open Scope string_scope.\n'
                    f'Goal run_line "{q(line)}" = "{q(mout)}".\nProof. vm_compute. reflexivity. Qed.\n')
        procs.append((name, line, mout, subprocess.Popen(
            f'ulimit -s unlimited 2>/dev/null; timeout 600 coqc -Q . WalModel {name}.v', shell=True, cwd=COQ,
            stdout=subprocess.PIPE, stderr=subprocess.STDOUT, text=True)))
    for name, line, mout, pr in procs:
        out, _ = pr.communicate()
        for ext in ('.v', '.vo', '.vok', '.vos', '.glob'):
            try:
                os.remove(os.path.join(COQ, name + ext))
            except OSError:
                pass
        try:
            os.remove(os.path.join(COQ, '.' + name + '.aux'))
        except OSError:
            pass
        if pr.returncode == 0:
            info['agree'] += 1
        elif 'Unable to unify' in out:
            info['differ'] += 1
            rep.mismatches.append({'case': {'model_line': line[:2000]}, 'model': mout[:2000],
                                   'diff': 'extraction cross-check: Cases.run_line evaluated inside Coq (vm_compute) differs from the '
                                           'output of the extracted OCaml binary: ' + out[-600:]})
        else:
            info['skipped'] += 1      # timeout / resource limit of the in-Coq evaluation: not a verdict
    rep.extra['in_coq_replay'] = info


def final_fields(final):
    """'END out=<hex> idx=a:1,b:2, scope=.. group=.. stack=0 cur=g n=1' -> dict (out decoded)"""
    d = {}
    for tok in final.split()[1:]:
        k, _, v = tok.partition('=')
        d[k] = v
    try:
        d['out_text'] = bytes.fromhex(d.get('out', '')).decode('utf-8', 'replace')
    except ValueError:
        d['out_text'] = ''
    return d
