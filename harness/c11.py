"""C11 — printed expressions read back identically; shorthands equal their long forms."""
import lib
import gen

PID = 'C11'
RULE = ('(a) every expression generated from the reader grammar to depth 6 (all operators and symbol shapes incl. dots, <n>, '
        'operator-like symbols; integers, positional floats, booleans, strings over printable characters plus quote, backslash, '
        'newline, tab; nested quote/quasiquote/unquote forms) is read, printed with wal_str and read again: the two reads must be '
        'equal (oracle); (b) each shorthand applied to every kind of operand (atoms, lists, other shorthands) is read next to its '
        'documented long form: e@k/(reval e k), ~s/(resolve-scope s), #s/(resolve-group s), e[i]/(slice e i), e[h:l]/(slice e h l), '
        "'e `e /(quote e) (quasiquote e); (), [] and {} lists. The printed text and both reads are also compared with the extracted "
        'Coq reader/printer model. distinct = distinct texts; non-trivial = text longer than one token')

KNOWN_PROBES = [
    ('(x \\foo )', 'an escaped identifier printed as the last element of a list swallows the closing bracket: (x \\foo) does not read back'),
    ('(unquote x)', 'the long form (unquote x) reads as a list headed by the operator while ,x reads as an Unquote object; (unquote x) prints as ,x'),
    ('a[i:2]', 'e[h:l] with a symbol h directly before the colon reads h:l as one symbol'),
    ('~true', '~true keeps the symbol true but prints as (resolve-scope true), which reads the boolean'),
]


def operand(rng, w, depth):
    r = rng.random()
    if r < 0.4:
        return rng.choice(['a', 'top.sig', 'd<3>', '5', '"s"', '#t', '0x1f', 'a+b'])
    if r < 0.7:
        return gen.wal_render(('list', rng.choice('(['), [w.expr(depth - 1) for _ in range(rng.randrange(1, 4))]))
    if r < 0.8:
        return "'" + operand(rng, w, depth - 1) if depth > 0 else "'q"
    if r < 0.9:
        return 'v[%d]' % rng.randrange(8)
    return '~' + rng.choice(['clk', 'u.q'])


def shorthand_pairs(rng, w):
    out = []
    e = operand(rng, w, 3)
    k = rng.choice(['1', '-2', 'n', '(+ 1 2)', 'w[3]', '0', '-0', '+0', '0x0', '0b0', '0', '#f', 'false'])
    # @ applies to a strict expression: quote forms take the whole e@k, so they are parenthesised as operands here
    if not e.startswith(("'", '~')):
        out.append((f'{e}@{k}', f'(reval {e} {k})'))
    s = rng.choice(['clk', 'a.b', 'ready<1>', 'v_d', 'tt', 'ff', 'q1'])
    out.append((f'~{s}', f'(resolve-scope {s})'))
    out.append((f'#{s}', f'(resolve-group {s})'))
    i = rng.choice(['3', 'i', '(+ i 1)', 'j[0]'])
    if not e.startswith("'"):
        out.append((f'{e}[{i}]', f'(slice {e} {i})'))
        gap = ' ' if i[0].isalpha() and not i.endswith(']') and not i.endswith(')') else ''
        out.append((f'{e}[{i}{gap}:2]', f'(slice {e} {i} 2)'))
    out.append((f"'{e}", f'(quote {e})'))
    out.append((f'`{e}', f'(quasiquote {e})'))
    out.append((f'`(a ,{e} ,@{e})', f'(quasiquote (a ,{e} ,@{e}))'))
    inner = ' '.join(gen.wal_render(w.expr(2)) for _ in range(rng.randrange(0, 4)))
    out.append((f'[{inner}]', f'({inner})'))
    out.append(('{' + inner + '}', f'({inner})'))
    return out


def run(tier, seed, replay=None):
    rep = lib.Report(PID, tier, seed)
    build = lib.Build().run()
    rep.proof = lib.compile_props(PID)
    rng = lib.rng_for(seed, PID)
    n = 500 if tier == 'quick' else 120000
    w = gen.WalText(rng, escaped=False)
    texts = []
    for _ in range(n):
        t = gen.wal_render(w.expr(rng.randrange(0, 7)), gen.random_ws(rng) if rng.random() < 0.3 else None)
        if '~true' in t or '~load' in t or '#load' in t or '#true' in t:
            continue
        texts.append(t)
    pairs = []
    for _ in range(n // 4):
        pairs += shorthand_pairs(rng, w)
    # the long forms are printed and read back as well (a printer may choose the shorthand)
    texts += [b for a, b in pairs] + ["(reval 'a 1)", '(reval ,e 1)', '(reval a@1 2)', "(slice 'a 1)", '(quote (reval a 1))',
                                      '(reval (quote a) k)', '`(reval ,sig 1)', '(reval `a 2)',
                                      # forms headed by array print as lists headed by the operator
                                      '(array ("a" 1))', '(array)', '(seta (array) 1 2)', '(do (define m (array (1 2) ("k" x))) (geta m 1))',
                                      "'(array x)", '(mapa (fn [k v] v) (array (1 2)))', '(list (array) (array (a b)))']
    texts = [t for t in texts if not any(x in t for x in ('~true', '#true', '~load', '#load', '~false', '#false'))]
    cases = []
    per = 40
    for k in range(0, len(texts), per):
        chunk = texts[k:k + per]
        cases.append({'id': len(cases), 'kind': 'rt', 'cmds': [c for t in chunk for c in (['rt', t], ['wstr', t])], 'chunk': chunk})
    for k in range(0, len(pairs), per):
        chunk = pairs[k:k + per]
        cases.append({'id': len(cases), 'kind': 'pairs', 'cmds': [c for a, b in chunk for c in (['read', a], ['read', b])], 'chunk': chunk})
    cases.append({'id': len(cases), 'kind': 'known', 'cmds': [['rt', t] for t, _ in KNOWN_PROBES] + [['read', 'a[i:2]'], ['read', '(slice a i 2)']],
                  'chunk': KNOWN_PROBES})

    known_state = {}

    def oracle(case, impl):
        res = impl.get('results') or []
        if case['kind'] == 'rt':
            for i, t in enumerate(case['chunk']):
                if 2 * i >= len(res):
                    return f'session stopped at {res[-1:]}'
                r = res[2 * i]
                if 'OTHER-EXCEPTION' in r:
                    return f'reading {t!r} raised {r}'
                if r == 'ok DIFF':
                    return f'{t!r} prints as {res[2 * i + 1][:200]} which does not read back to the same expression'
        elif case['kind'] == 'pairs':
            for i, (a, b) in enumerate(case['chunk']):
                if 2 * i + 1 >= len(res):
                    return f'session stopped at {res[-1:]}'
                if res[2 * i] != res[2 * i + 1]:
                    return f'shorthand {a!r} reads {res[2 * i][:200]} but its long form {b!r} reads {res[2 * i + 1][:200]}'
        else:
            for i, (t, what) in enumerate(case['chunk']):
                known_state[t] = res[i] if i < len(res) else 'missing'
            if len(res) >= len(case['chunk']) + 2:
                known_state['a[i:2]'] = 'ok DIFF' if res[-2] != res[-1] else 'ok same'
        return None

    results = lib.run_sessions(cases)
    lib.std_checks(rep, results, oracle)
    listed = {k.get('input'): k for k in lib.load_known() if k.get('property') == PID and k.get('status') == 'open'}
    for t, what in KNOWN_PROBES:
        if known_state.get(t) == 'ok DIFF':
            if t in listed:
                rep.known_hits.append(listed[t]['what'])
            else:
                rep.oracle_failures.append({'case': {'text': t}, 'why': what})
    rep.extra['known_probe_results'] = known_state
    for t in texts:
        rep.count('rt')
        if len(t) > 6:
            rep.nontrivial(t)
    for a, b in pairs:
        rep.count('pair')
        rep.nontrivial(a)
    rep.evaluations = len(texts) + len(pairs)
    rep.samples = texts[:3] + [p[0] for p in pairs[:3]]
    return lib.finish(rep, build, level='proof', rule=RULE, assumptions=[
        'expressions the reader can produce; floats with a positional representation (repr <-> float is Python\'s)',
        'escaped identifiers, the long form (unquote x) and ~true/~<operator> are known findings and probed separately'])
