"""C04 — scans (find, find/g, whenever, count) are pointwise, complete, position-neutral."""
import re
import lib
import gen
from c03 import split_list

PID = 'C04'
RULE = ('each evaluation is one (condition c, start position) pair on one or two generated traces (including x/z-valued signals, '
        '@ offsets, scoped references, virtual signals, user functions): (find c), (count c), (find/g c) and (whenever c body) '
        '(bodies accumulate (INDEX value) pairs, or step inside a timeframe) are compared with an explicit walk that evaluates c '
        'at every position (oracle, same interpreter), and all indices are compared before/after; every command also runs on '
        'the extracted Coq model; one scan form (a function body) is also evaluated under two different scopes, and a condition that sets its own scope is scanned. distinct = distinct (c, start); non-trivial = c reads a signal')


def xz_trace(rng, n):
    """single-scope trace with an x/z-valued scalar and vector"""
    lines = ['$timescale 1ns $end', '$scope module top $end', '$var wire 1 ! clk $end', '$var wire 1 " xs $end',
             '$var wire 4 # xv $end', '$var wire 4 $ a $end', '$upscope $end', '$enddefinitions $end']
    sig = {'top.clk': [], 'top.xs': [], 'top.xv': [], 'top.a': []}
    for i in range(n):
        lines.append('#%d' % (i * 5))
        c = i % 2
        xs = rng.choice(['0', '1', 'x', 'z', '0', '1'])
        xv = rng.choice(['0000', '1x0z', 'x', '101', 'zzzz', '0'])
        a = rng.getrandbits(4)
        lines += ['%d!' % c, xs + '"', 'b%s #' % xv, 'b%s $' % format(a, 'b')]
        sig['top.clk'].append(c)
        sig['top.xs'].append(gen.to_value(xs))
        sig['top.xv'].append(gen.to_value(xv))
        sig['top.a'].append(a)
    return '\n'.join(lines) + '\n', {'n': n, 'signals': sig, 'ts': [i * 5 for i in range(n)], 'widths': {}, 'scopes': ['top']}


def gen_case(rng, cid, two, per):
    cmds = []
    infos = {}
    tids = ['a', 'b'] if two else ['DEFAULT']
    xz = (not two) and rng.random() < 0.35
    for t in tids:
        if xz:
            text, info = xz_trace(rng, rng.randrange(1, 8))
        else:
            text, info = gen.simple_trace(rng, n=rng.randrange(1, 8))
        cmds += [['file', t + '.vcd', text], ['load', t + '.vcd', t]]
        infos[t] = info
    checks = []
    if xz:
        conds = ['top.xs', 'top.xv', '(= top.xs "x")', '(&& top.xs top.clk)', '(|| (= top.xv "x") (> top.a 7))',
                 '(! (= top.xs 0))', 'top.xs@1', '(= top.xv top.xv@-1)', '(&& top.xv (= top.clk 1))']
        fr = None
    else:
        fr = gen.Frag(rng, infos)
        for s in fr.func_defs():
            cmds.append(['evalstr', '111', s])
        if not two:
            vs_sig = fr.sig()
            cmds.append(['evalstr', '111', '(defsig vs (+ %s 1))' % vs_sig])
            cmds.append(['evalstr', '111', '(defsig vn (reval %s 1))' % fr.sig()])
            fr.vsigs = ['vs', 'vn']
    cmds.append(['evalstr', '111', '(define acc (list))'])
    cmds.append(['evalstr', '111', '(define ref (list))'])
    ie = '(list ' + ' '.join((t + '^INDEX') if two else 'INDEX' for t in tids) + ')'
    for _ in range(per):
        c = rng.choice(conds) if xz else fr.expr(rng.choice([1, 2, 2, 3]))
        start = {t: rng.randrange(0, infos[t]['n']) for t in tids}
        steps = min(infos[t]['n'] - 1 - start[t] for t in tids)
        for t in tids:
            cmds.append(['evalstr', '111', f'(step {t} {start[t]})' if two else f'(step {start[t]})'])
        base = len(cmds)
        kind = rng.choice(['find', 'findg', 'whenever', 'whenever_tf'] if not two else ['findg', 'whenever'])
        valexpr = (fr.sig() if fr else 'top.a')
        if kind == 'find':
            cmds.append(['evalstr', '111', f'(list (find {c}) (count {c}) {ie})'])
        elif kind == 'findg':
            cmds.append(['evalstr', '111', f'(list (find/g {c}) {ie})'])
        elif kind == 'whenever':
            cmds.append(['evalstr', '111', '(set [acc (list)])'])
            cmds.append(['evalstr', '111',
                         f'(list (whenever {c} (set [acc (+ acc (list (list {ie} {valexpr})))]) (length acc)) acc {ie})'])
        else:
            cmds.append(['evalstr', '111', '(set [acc (list)])'])
            cmds.append(['evalstr', '111',
                         f'(list (whenever {c} (set [acc (+ acc (list (timeframe (step 1) (list {ie} {valexpr}))))]) (length acc)) acc {ie})'])
        # explicit walk
        wbase = len(cmds)
        cmds.append(['evalstr', '111', '(set [ref (list)])'])
        for m in range(steps + 1):
            if kind == 'whenever_tf':
                rec = f'(timeframe (step 1) (list {ie} {valexpr}))'
            else:
                rec = f'(list {ie} {valexpr})'
            cmds.append(['evalstr', '111', f'(if {c} (do (set [ref (+ ref (list {rec}))]) 1) 0)'])
            if m < steps:
                cmds.append(['evalstr', '111', '(step 1)'])
        cmds.append(['evalstr', '111', 'ref'])
        refpos = len(cmds) - 1
        if steps:
            cmds.append(['evalstr', '111', f'(step {-steps})'])
        for t in tids:
            cmds.append(['evalstr', '111', f'(step {t} {-start[t]})' if two else f'(step {-start[t]})'])
        checks.append({'kind': kind, 'base': base, 'wbase': wbase, 'steps': steps, 'refpos': refpos, 'c': c,
                       'start': [start[t] for t in tids]})
    # conditions of known truth: an offset applied directly to INDEX, TS and a virtual signal
    if not xz and not two:
        n_ = infos[tids[0]]['n']
        base = len(cmds)
        cmds.append(['evalstr', '111', f'(list (find (= INDEX@1 (+ INDEX 1))) (count (> TS@1 TS)) (find (= vs@1 (reval (+ {vs_sig} 1) 1))) '
                                       f'(find (= (+ INDEX@-1 1) INDEX)) INDEX)'])
        checks.append({'kind': 'abs', 'base': base, 'n': n_, 'c': '(= INDEX@1 (+ INDEX 1))', 'start': [0]})
    # count is the length of find also when the condition mentions user variables, whatever they are called
    if not xz and not two:
        names_ = ['n', 'i', 'c', 'cnt', 'm', 'acc2', 'x', 'tmp', 'idx', 'res', 'l', 'k']
        nm = names_[cid % len(names_)]
        thr = rng.randrange(0, 6)
        sg = fr.sig()
        cmds.append(['evalstr', '111', f'(define {nm} {thr})'])
        cmp_ = rng.choice(['>', '<', '=', '>='])
        base = len(cmds)
        cmds.append(['evalstr', '111', f'(list (count ({cmp_} {sg} {nm})) (length (find ({cmp_} {sg} {nm}))) {nm})'])
        checks.append({'kind': 'countvar', 'base': base, 'c': f'({cmp_} {sg} {nm})', 'start': [0], 'var': (nm, thr)})
    # the same scan form evaluated again under another scope (a function body is one tree evaluated several times),
    # and a condition that sets its own scope: ~name must be looked up when the condition is evaluated
    if not two and not xz:
        sigs = sorted(infos['DEFAULT']['signals'])
        by_leaf = {}
        for nm in sigs:
            if '.' in nm:
                sc, leaf = nm.rsplit('.', 1)
                if re.match(r'^[a-z_]+$', leaf):
                    by_leaf.setdefault(leaf, []).append(sc)
        dup = sorted(l for l, scs in by_leaf.items() if len(scs) >= 2)
        if dup:
            L = rng.choice(dup)
            s1, s2 = rng.sample(by_leaf[L], 2)
            thr = rng.choice([0, 1, 3])
            c = f'(> ~{L} {thr})'
            cmds.append(['evalstr', '111', f'(defun scanf [] (find {c}))'])
            cmds.append(['evalstr', '111', f'(defun scanw [] (do (set [acc (list)]) (whenever {c} (set [acc (+ acc (list INDEX))])) acc))'])
            base = len(cmds)
            cmds.append(['evalstr', '111',
                         f'(list (in-scope "{s1}" (scanf)) (in-scope "{s2}" (scanf)) (in-scope "{s1}" (find {c})) (in-scope "{s2}" (find {c})) '
                         f'(in-scope "{s1}" (scanw)) (in-scope "{s2}" (scanw)) (in-scope "{s1}" (find (in-scope "{s2}" {c}))) '
                         f'(in-scope "{s2}" (count {c})) (find (> {s2}.{L} {thr})))'])
            checks.append({'kind': 'rescope', 'base': base, 'c': c, 'start': [0], 'scopes': (s1, s2)})
    return {'id': cid, 'cmds': cmds, 'checks': checks, 'tids': tids}


def oracle(case, impl):
    res = impl.get('results') or []
    two = len(case['tids']) > 1
    for chk in case['checks']:
        if chk['kind'] == 'abs':
            if len(res) <= chk['base']:
                return f'session stopped at {res[-1:]} (offsets on INDEX / TS / a virtual signal inside scans)'
            n_ = chk['n']
            want = 'ok ' + lib.ser_py([list(range(n_ - 1)), n_ - 1, list(range(n_)), list(range(1, n_)), 0])      # at the last index both sides of the third are #f
            if lib.canon(res[chk['base']]) != lib.canon(want):
                return (f'(list (find (= INDEX@1 (+ INDEX 1))) (count (> TS@1 TS)) (find (= vs@1 body@1)) (find (= (+ INDEX@-1 1) INDEX)) INDEX) '
                        f'on a trace of {n_} indices gives {res[chk["base"]][:300]} expected {want}')
            continue
        if chk['kind'] == 'countvar':
            if len(res) <= chk['base']:
                return f'session stopped at {res[-1:]} (count {chk["c"]})'
            r = res[chk['base']]
            if not r.startswith('ok'):
                continue
            try:
                p = split_list(r)
            except (AssertionError, IndexError) as ex:
                return f'unparsable observation {ex!r}'
            nm, thr = chk['var']
            if p[0] != p[1]:
                return f'(count {chk["c"]}) = {p[0]} but (length (find {chk["c"]})) = {p[1]} with {nm} = {thr}'
            if p[2] != 'I%d' % thr:
                return f'the user variable {nm} is {p[2]} after count, expected {thr}'
            continue
        if chk['kind'] == 'rescope':
            if len(res) <= chk['base']:
                return f'session stopped at {res[-1:]} (rescope {chk["c"]})'
            r = res[chk['base']]
            if not r.startswith('ok'):
                continue
            try:
                p = [lib.canon(x) for x in split_list(r)]
            except (AssertionError, IndexError) as ex:
                return f'unparsable observation {ex!r}'
            s1, s2 = chk['scopes']
            ref1, ref2 = p[2], p[8]
            if p[3] != ref2:
                return f'(in-scope "{s2}" (find {chk["c"]})) = {p[3]} but the full name gives {ref2}'
            if p[0] != ref1 or p[1] != ref2:
                return (f'the same (find {chk["c"]}) form evaluated under scope {s1} then {s2} gives {p[0]} / {p[1]}, '
                        f'evaluated afresh {ref1} / {ref2} (the scan must look names up when it runs)')
            if p[4] != ref1 or p[5] != ref2:
                return f'whenever under scope {s1} then {s2} ran its body at {p[4]} / {p[5]}, find gives {ref1} / {ref2}'
            if p[6] != ref2:
                return f'(in-scope "{s1}" (find (in-scope "{s2}" {chk["c"]}))) = {p[6]} but the condition holds at {ref2}'
            continue
        if len(res) <= chk['refpos']:
            return f'session stopped at {res[-1:]} (c={chk["c"]} start={chk["start"]} kind={chk["kind"]})'
        try:
            # hits of the explicit walk
            hits = []
            pos = chk['wbase'] + 1
            for m in range(chk['steps'] + 1):
                r = res[pos]
                if r == 'ok I1':
                    hits.append(m)
                elif r != 'ok I0':
                    return f'walk observation {r}'
                pos += 2 if m < chk['steps'] else 1
            refacc = res[chk['refpos']]
            start = chk['start']
            idx_want = '( ' + ''.join('I%d ' % s for s in start) + ')'
            k = chk['kind']
            if k == 'find':
                got = split_list(res[chk['base']])
                want = '[ ' + ''.join('I%d ' % (start[0] + m) for m in hits) + ']'
                if lib.canon(got[0]) != lib.canon(want):
                    return f'(find {chk["c"]}) from {start} = {got[0]} but c holds exactly at {want}'
                if got[1] != 'I%d' % len(hits):
                    return f'(count {chk["c"]}) from {start} = {got[1]} expected {len(hits)}'
                if lib.canon(got[2]) != lib.canon(idx_want):
                    return f'indices after find: {got[2]} expected {idx_want}'
            elif k == 'findg':
                got = split_list(res[chk['base']])
                if two:
                    want = '[ ' + ''.join('A ( ' + ''.join('S%s I%d ' % (lib.hx(t), s + m) for t, s in zip(case['tids'], start)) + ') '
                                          for m in hits) + ']'
                else:
                    want = '[ ' + ''.join('I%d ' % (start[0] + m) for m in hits) + ']'
                if lib.canon(got[0]) != lib.canon(want):
                    return f'(find/g {chk["c"]}) from {start} = {got[0]} expected {want}'
                if lib.canon(got[1]) != lib.canon(idx_want):
                    return f'indices after find/g: {got[1]} expected {idx_want}'
            else:
                got = split_list(res[chk['base'] + 1])
                want_ret = 'I%d' % len(hits) if hits else 'N'
                if got[0] != want_ret:
                    return f'(whenever {chk["c"]} ..) from {start} returned {got[0]} expected {want_ret} (one body run per hit)'
                if lib.canon('ok ' + got[1]) != lib.canon(refacc):
                    return f'whenever body saw {got[1]} but the explicit walk gives {refacc} (c={chk["c"]} start={start})'
                if lib.canon(got[2]) != lib.canon(idx_want):
                    return f'indices after whenever: {got[2]} expected {idx_want}'
        except (AssertionError, IndexError) as ex:
            return f'unparsable observation {ex!r}'
    return None


def run(tier, seed, replay=None):
    rep = lib.Report(PID, tier, seed)
    build = lib.Build().run()
    rep.proof = lib.compile_props(PID)
    rng = lib.rng_for(seed, PID)
    n = 64 if tier == 'quick' else 12800
    cases = [gen_case(rng, c, two=(c % 3 == 2), per=6) for c in range(n)]
    results = lib.run_sessions(cases)
    lib.std_checks(rep, results, oracle)
    for c in cases:
        for chk in c['checks']:
            rep.count(chk['kind'])
            if any(ch.isalpha() for ch in chk['c']):
                rep.nontrivial((chk['c'], tuple(chk['start']), chk['kind']))
    rep.evaluations = sum(len(c['checks']) for c in cases)
    rep.samples = [f'{chk["kind"]} c={chk["c"]} start={chk["start"]}' for c in cases[:4] for chk in c['checks'][:1]]
    return lib.finish(rep, build, level='proof', rule=RULE, assumptions=[
        'conditions are from the trace-reading fragment and complete without error',
        'find is exercised with a single trace; find/g and whenever with one and two traces'])
