"""C12 — multiple traces: isolated, addressable by id, loaded set stays consistent."""
import itertools
import lib
import gen

PID = 'C12'
RULE = ('each evaluation is one sequence of load / unload / failing-load (missing file, unsupported extension, duplicate id) / '
        'step / query / one-index-ahead query (tid^sig@1) operations over three generated traces with overlapping signal names and different lengths, explored '
        'breadth-first (all sequences up to length 3; in thorough also all of length 4 over the load/unload/step operations and 20000 sampled ones over all; plus random longer ones up to 6) against a '
        'dictionary-of-traces reference (oracle): after every operation loaded-traces, every tid^INDEX/TS/MAX-INDEX/signal/'
        'width/scoped reference, and unqualified names when exactly one trace is loaded; every command also runs on the '
        'extracted Coq model. distinct = distinct operation sequences; non-trivial = at least two traces loaded at some point')

OPS = ['load a', 'load b', 'load c', 'load missing', 'load ext', 'unload a', 'unload b', 'step a', 'step all', 'step all 2',
       'loadas a b',      # another file under an id that may have been used before
       'ahead a', 'ahead b',   # a query one index ahead on one trace: no trace may have moved afterwards
       'loadgen a', 'unload t0',
       'stepm a b 3', 'stepm b a 2']   # a load without an id: the generated id t<number of loaded traces> may be taken already


def make_traces(rng):
    out = {}
    for t, n in (('a', 3), ('b', 5), ('c', 2)):
        text, info = gen.simple_trace(rng, n=n, scopes={'top': ['clk', 'a', 'b'], 'top.u': ['a']})
        out[t] = (text, info)
    return out


def query(loaded, traces0, idx, src):
    """(expression, expected serialisation)"""
    traces = {t: traces0[src[t]] for t in loaded}
    parts = ['(loaded-traces)']
    vals = [list(loaded)]
    for t in loaded:
        info = traces[t][1]
        i = idx[t]
        parts += [f'{t}^INDEX', f'{t}^TS', f'{t}^MAX-INDEX', f'{t}^top.a', f'(in-scope "{t}^top.u" ~a)' if len(loaded) > 1 else '(in-scope "top.u" ~a)',
                  f'(signal-width "{t}^top.b")', f'(in-group "{t}^top." #b)']
        vals += [i, info['ts'][i], info['n'] - 1, info['signals']['top.a'][i], info['signals']['top.u.a'][i],
                 info['widths']['top.b'], info['signals']['top.b'][i]]
    if len(loaded) == 1:
        t = loaded[0]
        info = traces[t][1]
        i = idx[t]
        parts += ['INDEX', 'TS', 'top.u.a', '(signal-width "top.a")', 'TRACE-NAME']
        vals += [i, info['ts'][i], info['signals']['top.u.a'][i], info['widths']['top.a'], t]
    return '(list ' + ' '.join(parts) + ')', 'ok ' + lib.ser_py(vals)


def make_case(seq, traces, cid):
    cmds = []
    for t, (text, info) in traces.items():
        cmds.append(['file', t + '.vcd', text])
    cmds.append(['file', 'n.txt', 'not a trace'])
    loaded = []
    idx = {}
    src = {}
    expect = []
    multi = False
    traces0 = traces
    for op in seq:
        parts = op.split()
        traces = {t: traces0[src[t]] for t in loaded}
        if parts[0] == 'stepm':
            # (step t1 t2 n): every listed trace steps on its own; the result says whether all of them could
            ids, n = parts[1:3], int(parts[3])
            if all(t in loaded for t in ids):
                ok = True
                for t in ids:
                    if idx[t] + n <= traces[t][1]['n'] - 1:
                        idx[t] += n
                    else:
                        ok = False
                cmds.append(['try', ['evalstr', '111', f'(step {ids[0]} {ids[1]} {n})']])
                expect.append('ok ' + lib.ser_py(ok))
            else:
                cmds.append(['try', ['evalstr', '111', '(+ 1 1)']])
                expect.append('ok I2')
        elif parts[0] == 'loadgen':
            file_ = parts[1]
            tid_ = 't%d' % len(loaded)
            cmds.append(['try', ['evalstr', '111', f'(load "{file_}.vcd")']])
            if tid_ in loaded:
                expect.append('err')
            else:
                expect.append('ok N')
                loaded.append(tid_)
                idx[tid_] = 0
                src[tid_] = file_
        elif parts[0] == 'loadas':
            tid_, file_ = parts[1], parts[2]
            cmds.append(['try', ['evalstr', '111', f'(load "{file_}.vcd" "{tid_}")']])
            if tid_ in loaded:
                expect.append('err')
            else:
                expect.append('ok N')
                loaded.append(tid_)
                idx[tid_] = 0
                src[tid_] = file_
        elif parts[0] == 'load':
            what = parts[1]
            if what == 'missing':
                cmds.append(['try', ['evalstr', '111', '(load "nofile.vcd" "z")']])
                expect.append('err')
            elif what == 'ext':
                cmds.append(['try', ['evalstr', '111', '(load "n.txt" "y")']])
                expect.append('ok N')
            else:
                cmds.append(['try', ['evalstr', '111', f'(load "{what}.vcd" "{what}")']])
                if what in loaded:
                    expect.append('err')
                else:
                    expect.append('ok N')
                    loaded.append(what)
                    idx[what] = 0
                    src[what] = what
        elif parts[0] == 'ahead':
            t = parts[1]
            # only for a loaded trace: an e that raises inside e@k is outside the claim of C03/C12 (the positions are then
            # not restored by the implementation), so the id that is not loaded is queried without an offset
            cmds.append(['try', ['evalstr', '111', f'{t}^top.a@1' if t in loaded else f'{t}^top.a']])
            if t not in loaded:
                expect.append('err')
            elif all(idx[x] + 1 <= traces[x][1]['n'] - 1 for x in loaded):
                expect.append('ok ' + lib.ser_py(traces[t][1]['signals']['top.a'][idx[t] + 1]))
            else:
                expect.append('ok ' + lib.ser_py(False))
        elif parts[0] == 'unload':
            cmds.append(['try', ['evalstr', '111', f'(unload "{parts[1]}")']])
            expect.append('ok N')
            if parts[1] in loaded:
                loaded.remove(parts[1])
                del idx[parts[1]]
        else:
            if not loaded:
                cmds.append(['try', ['evalstr', '111', '(step)']])
                expect.append('err')
            elif parts[1] == 'all':
                n = int(parts[2]) if len(parts) > 2 else 1
                ok = True
                for t in loaded:
                    if idx[t] + n <= traces[t][1]['n'] - 1:
                        idx[t] += n
                    else:
                        ok = False
                cmds.append(['try', ['evalstr', '111', f'(step {n})']])
                expect.append('ok ' + lib.ser_py(ok))
            else:
                t = parts[1]
                cmds.append(['try', ['evalstr', '111', f'(step "{t}" 1)']])
                if t in loaded:
                    ok = idx[t] + 1 <= traces[t][1]['n'] - 1
                    if ok:
                        idx[t] += 1
                    expect.append('ok ' + lib.ser_py(ok))
                else:
                    expect.append('err')
        if len(loaded) > 1:
            multi = True
        if loaded:
            q, want = query(loaded, traces0, idx, src)
            cmds.append(['try', ['evalstr', '111', q]])
            expect.append(want)
        else:
            cmds.append(['try', ['evalstr', '111', '(loaded-traces)']])
            expect.append('ok [ ]')
        # the usable set is the loaded set: names qualified with an id that is not (or no longer) loaded must fail
        for t in ('a', 'b', 'c'):
            for nm in (f'{t}^top.a', f'{t}^INDEX'):
                if t in loaded:
                    continue
                cmds.append(['try', ['evalstr', '111', nm]])
                expect.append('err')
    return {'id': cid, 'cmds': cmds, 'expect': expect, 'seq': list(seq), 'skip': len(traces0) + 1, 'nontrivial': multi,
            'per_op': None}


def oracle(case, impl):
    res = (impl.get('results') or [])[case['skip']:]
    cmds = case['cmds'][case['skip']:]
    if len(res) < len(case['expect']):
        return f'session stopped early ({len(res)} of {len(case["expect"])} results) for {case["seq"]}: {res[-1:]}'
    for k, (g, e) in enumerate(zip(res, case['expect'])):
        ok = g.startswith('err') if e == 'err' else lib.canon(g) == lib.canon(e)
        if not ok:
            return f'after operations {case["seq"]}, command {cmds[k][1][2][:200]!r}: got {g[:300]} expected {e[:300]}'
    return None


def run(tier, seed, replay=None):
    rep = lib.Report(PID, tier, seed)
    build = lib.Build().run()
    rep.proof = lib.compile_props(PID)
    rng = lib.rng_for(seed, PID)
    traces = make_traces(rng)
    seqs = []
    maxlen = 3
    for L in range(1, maxlen + 1):
        seqs += list(itertools.product(OPS, repeat=L))
    if tier != 'quick':
        # length 4 exhaustively over the operations of the property text (load/unload/failing load/step), sampled over the rest
        core = [o for o in OPS if o.split()[0] in ('load', 'unload', 'step')]
        seqs += list(itertools.product(core, repeat=4))
        seqs += [tuple(rng.choice(OPS) for _ in range(4)) for _ in range(20000)]
        rep.extra['exhaustive_length_4_over'] = core
    rep.extra['exhaustive_up_to_length'] = maxlen
    nrand = 300 if tier == 'quick' else 48000
    for _ in range(nrand):
        L = rng.randrange(4, 7)
        seqs.append(tuple(rng.choice(OPS) for _ in range(L)))
    # always run: a generated id that is taken already (after an unload the count of loaded traces names a live trace)
    seqs += [('load a', 'load b', 'step all 2', 'ahead b', 'ahead a'), ('load c', 'load b', 'step all', 'ahead b', 'step all'),
             ('load b', 'load c', 'step all', 'ahead c', 'ahead b'), ('load a', 'load b', 'load c', 'step all', 'ahead a', 'ahead b'),
             ('load a', 'load b', 'stepm a b 3', 'stepm b a 2'), ('load b', 'load a', 'stepm b a 2', 'stepm a b 3', 'step all'),
             ('loadgen a', 'loadgen a', 'unload t0', 'loadgen a', 'step all'), ('loadgen a', 'loadgen a', 'unload t0', 'loadgen a', 'unload t1', 'step all'),
             ('load a', 'loadgen a', 'unload a', 'loadgen a'), ('loadgen a', 'load b', 'load c', 'unload t0', 'unload b', 'loadgen a'),
             ('loadgen a', 'loadgen a', 'loadgen a', 'unload t0', 'ahead a', 'loadgen a')]
    cases = [make_case(s, traces, i) for i, s in enumerate(seqs)]
    results = lib.run_sessions(cases)
    lib.std_checks(rep, results, oracle)
    for c in cases:
        if c['nontrivial']:
            rep.nontrivial(c['seq'])
        rep.count('len=%d' % len(c['seq']))
    rep.evaluations = sum(len(c['seq']) for c in cases)
    rep.samples = [' ; '.join(c['seq']) for c in cases[-3:]]
    return lib.finish(rep, build, level='proof', rule=RULE, assumptions=[
        'VCD traces; fst needs a package that is not installed',
        'virtual signals with several traces are not addressable in the implementation and are not part of the queries'])
