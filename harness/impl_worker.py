#!/venv/bin/python
"""impl_worker.py — runs sessions against the implementation in /repo's
working tree (PYTHONPATH decides which tree) and renders observations in the
same token protocol as the Coq model (coq/Proto.v, coq/Cases.v).

stdin : one JSON object per line  {"id":..,"cmds":[[name,args...],...]}
stdout: one JSON object per line  {"id":..,"results":[..],"final":..,"model_line":..}
"""
import contextlib
import io
import json
import os
import signal
import struct
import sys
import tempfile
import shutil

REAL_STDOUT = os.fdopen(os.dup(1), 'w')
sys.setrecursionlimit(1000)

import wal.core                                    # noqa: E402
import wal.passes                                  # noqa: E402
import wal.implementation.core as impl_core        # noqa: E402
import wal.implementation.wal as impl_wal          # noqa: E402
from wal.core import Wal                           # noqa: E402
from wal.ast_defs import (Operator, Symbol, WList, Unquote, UnquoteSplice,  # noqa: E402
                          Closure, Macro, WalEvalError)
from wal.reader import read_wal_sexpr, read_wal_sexprs, ParseError          # noqa: E402

BANNER = '\n>>>>> WAL Runtime error! <<<<<'


def hx(s):
    return s.encode('utf-8').hex()


def ser(v, depth=0):
    """Python value / AST -> protocol tokens"""
    if depth > 200:
        return '?deep'
    if v is None:
        return 'N'
    if isinstance(v, bool):
        return 'B1' if v else 'B0'
    if isinstance(v, int):
        return 'I%d' % v
    if isinstance(v, float):
        return 'F%016x' % struct.unpack('>Q', struct.pack('>d', v))[0]
    if isinstance(v, str):
        return 'S' + hx(v)
    if isinstance(v, Symbol):
        if v.steps is None:
            return 'Y' + hx(v.name)
        return 'R%d:%s' % (v.steps, hx(v.name))
    if isinstance(v, Operator):
        return 'O' + hx(v.value)
    if isinstance(v, WList):
        return '( ' + ''.join(ser(x, depth + 1) + ' ' for x in v) + ')'
    if isinstance(v, (list, tuple)):
        return '[ ' + ''.join(ser(x, depth + 1) + ' ' for x in v) + ']'
    if isinstance(v, Unquote):
        return 'U ' + ser(v.content, depth + 1)
    if isinstance(v, UnquoteSplice):
        return 'V ' + ser(v.content, depth + 1)
    if isinstance(v, Closure):
        return 'C'
    if isinstance(v, Macro):
        return 'M'
    if isinstance(v, dict):
        return 'A ( ' + ''.join('S' + hx(str(k)) + ' ' + ser(x, depth + 1) + ' ' for k, x in v.items()) + ')'
    return '?' + type(v).__name__


def deser(toks, i=0):
    """protocol tokens -> Python value (for keyword bindings and AST input)"""
    t = toks[i]
    if t == 'N':
        return None, i + 1
    if t == 'B0':
        return False, i + 1
    if t == 'B1':
        return True, i + 1
    if t in ('(', '['):
        close = ')' if t == '(' else ']'
        out = []
        i += 1
        while toks[i] != close:
            v, i = deser(toks, i)
            out.append(v)
        return (WList(out) if t == '(' else out), i + 1
    if t == 'U':
        v, i = deser(toks, i + 1)
        return Unquote(v), i
    if t == 'V':
        v, i = deser(toks, i + 1)
        return UnquoteSplice(v), i
    c, body = t[0], t[1:]
    if c == 'I':
        return int(body), i + 1
    if c == 'F':
        return struct.unpack('>d', struct.pack('>Q', int(body, 16)))[0], i + 1
    if c == 'S':
        return bytes.fromhex(body).decode('utf-8'), i + 1
    if c == 'Y':
        return Symbol(bytes.fromhex(body).decode('utf-8')), i + 1
    if c == 'R':
        k, h = body.split(':')
        return Symbol(bytes.fromhex(h).decode('utf-8'), int(k)), i + 1
    if c == 'O':
        return Operator(bytes.fromhex(body).decode('utf-8')), i + 1
    raise ValueError('bad token ' + t)


class Timeout(Exception):
    pass


def on_alarm(signum, frame):
    raise Timeout()


signal.signal(signal.SIGALRM, on_alarm)

IDENT1 = lambda e, *a, **k: e          # noqa: E731
PASS_SITES = [wal.core, impl_core, impl_wal]
ORIG = {m: (m.expand, m.optimize, m.resolve) for m in PASS_SITES}


@contextlib.contextmanager
def pass_flags(flags, everywhere):
    """flags 'eor' as '0'/'1' chars; patch wal.core only, or every call site"""
    sites = PASS_SITES if everywhere else [wal.core]
    try:
        for m in sites:
            if flags[0] == '0':
                m.expand = lambda seval, e, parent=None: e
            if flags[1] == '0':
                m.optimize = IDENT1
            if flags[2] == '0':
                m.resolve = IDENT1
        yield
    finally:
        for m in PASS_SITES:
            m.expand, m.optimize, m.resolve = ORIG[m]


def classify(exc):
    if isinstance(exc, (WalEvalError, AssertionError)):
        return 'E'
    if isinstance(exc, ParseError):
        return 'P'
    if isinstance(exc, SystemExit):
        code = exc.code
        if code is None:
            code = 0
        return 'X%s' % code
    if isinstance(exc, RecursionError):
        return 'REC'
    if isinstance(exc, Timeout):
        return 'TIMEOUT'
    if isinstance(exc, MemoryError):
        return 'REC'
    return 'O'


TEMPLATE = []


def fresh_wal():
    '''a new interpreter: Wal() once per worker, then deep copies of that pristine object
    (8x faster than re-reading std.wal; VERIF_FRESH_WAL=1 constructs every time)'''
    if os.environ.get('VERIF_FRESH_WAL') == '1':
        return Wal()
    if not TEMPLATE:
        TEMPLATE.append(Wal())
    import copy
    return copy.deepcopy(TEMPLATE[0])


class Session:
    def __init__(self):
        self.dir = tempfile.mkdtemp(prefix='walsess', dir=os.environ.get('VERIF_SCRATCH'))
        self.cwd = os.getcwd()
        os.chdir(self.dir)
        self.out = []
        self.model_cmds = []
        self.model_ok = True
        with contextlib.redirect_stdout(io.StringIO()):
            self.w = fresh_wal()

    def close(self):
        os.chdir(self.cwd)
        shutil.rmtree(self.dir, ignore_errors=True)

    def capture(self, fn):
        buf = io.StringIO()
        exc = None
        res = None
        signal.alarm(int(os.environ.get('VERIF_CASE_TIMEOUT', '20')))
        try:
            with contextlib.redirect_stdout(buf):
                res = fn()
        except BaseException as e:      # noqa: B902  (SystemExit, Timeout included)
            exc = e
        finally:
            signal.alarm(0)
        text = buf.getvalue()
        if exc is not None:
            cut = text.find(BANNER)
            if cut >= 0:
                text = text[:cut]
            self.out.append(text)
            return 'err ' + classify(exc) + ' out=' + hx(''.join(self.out)), False, exc
        self.out.append(text)
        return None, True, res

    def run(self, cmd):
        name = cmd[0]
        w = self.w
        if name == 'try':
            # an expected failure does not end the session
            n0 = len(self.model_cmds)
            r, ok = self.run(cmd[1])
            if len(self.model_cmds) > n0:
                self.model_cmds[n0] = 'try ' + self.model_cmds[n0]
            if not ok and r.startswith('err ') and r.split()[1] in ('E', 'O'):
                return ' '.join(r.split()[:2]), True
            return r, ok
        if name == 'file':
            path, text = cmd[1], cmd[2]
            with open(path, 'w', encoding='utf-8', newline='') as f:
                f.write(text)
            self.model_cmds.append('file S%s S%s' % (hx(path), hx(text)))
            return 'ok N', True
        if name == 'load':
            path, tid = cmd[1], cmd[2]
            self.model_cmds.append('load S%s S%s' % (hx(path), hx(tid)))
            r, ok, _ = self.capture(lambda: w.load(path, tid))
            return (r if not ok else 'ok N'), ok
        if name in ('evalstr', 'barestr', 'runstr', 'evalstr_all'):
            # text -> AST through the real reader; the model receives the AST
            flags = cmd[1]
            text = cmd[2]
            kw = cmd[3] if len(cmd) > 3 else {}
            kwv = {k: deser(v.split())[0] for k, v in kw.items()}
            try:
                with contextlib.redirect_stdout(io.StringIO()):
                    ast = read_wal_sexpr(text)
            except ParseError:
                self.model_ok = False
                return 'err P', False
            except BaseException as e:   # noqa: B902
                self.model_ok = False
                return 'err READER-' + type(e).__name__, False
            kws = ''.join(' S%s %s' % (hx(k), v) for k, v in kw.items())
            if name == 'evalstr':
                self.model_cmds.append('eval e%s %s%s' % (flags, ser(ast), kws))
                if flags == '111':
                    # all passes on: go through the public text API (Wal.eval_str = read + eval)
                    r, ok, v = self.capture(lambda: w.eval_str(text, **kwv))
                else:
                    with pass_flags(flags, False):
                        r, ok, v = self.capture(lambda: w.eval(ast, **kwv))
            elif name == 'evalstr_all':
                self.model_ok = False        # every call site patched: oracle only
                with pass_flags(flags, True):
                    r, ok, v = self.capture(lambda: w.eval(ast, **kwv))
            elif name == 'barestr':
                self.model_cmds.append('bare %s' % ser(ast))
                r, ok, v = self.capture(lambda: w.eval_context.eval(ast))
            else:
                self.model_cmds.append('run %s%s' % (ser(ast), kws))
                r, ok, v = self.capture(lambda: w.run_str(text, **kwv))
            return (r if not ok else 'ok ' + ser(v)), ok
        if name in ('read', 'reads', 'wstr'):
            text = cmd[1]
            self.model_cmds.append('%s S%s' % (name, hx(text)))
            from wal.util import wal_str
            try:
                with contextlib.redirect_stdout(io.StringIO()):
                    if name == 'reads':
                        v = read_wal_sexprs(text)
                    else:
                        v = read_wal_sexpr(text)
                    if name == 'wstr':
                        return 'ok S' + hx(wal_str(v)), True
                return 'ok ' + ser(v), True
            except ParseError as e:
                # the documented parse error carries a position (context + message)
                if not isinstance(getattr(e, 'message', None), str):
                    return 'ok BADPARSEERROR', True
                return 'err P', True
            except RecursionError:
                return 'err REC', True
            except BaseException as e:      # noqa: B902
                return 'ok OTHER-EXCEPTION-%s' % type(e).__name__, True
        if name == 'rt':
            text = cmd[1]
            self.model_cmds.append('rt S%s' % hx(text))
            from wal.util import wal_str
            try:
                with contextlib.redirect_stdout(io.StringIO()):
                    v = read_wal_sexpr(text)
            except ParseError:
                return 'err P', True
            except BaseException as e:      # noqa: B902
                return 'ok OTHER-EXCEPTION-%s' % type(e).__name__, True
            try:
                with contextlib.redirect_stdout(io.StringIO()):
                    printed = wal_str(v)
                    v2 = read_wal_sexpr(printed)
                self.last_rt = (ser(v), printed, ser(v2))
                return ('ok same' if ser(v) == ser(v2) else 'ok DIFF'), True
            except BaseException as e:      # noqa: B902
                self.last_rt = (ser(v), locals().get('printed'), type(e).__name__)
                return 'ok DIFF', True
        if name == 'wawk':
            # what wawk/wawk.py run() does, in process: parse, emit, (-o text), load with keep_signals, eval every form
            src = cmd[1]
            from wawk.parser import parse_wawk
            from wawk.ast_defs import AST
            from wal.util import wal_str
            d0 = (AST.find_variables.__defaults__ or (None,))[0]
            if isinstance(d0, dict):
                d0.clear()      # one program per process in real use (the default argument is shared between calls)
            try:
                with contextlib.redirect_stdout(io.StringIO()):
                    parsed = parse_wawk(src)
                    stm = '[ ' + ''.join('[ %s %s ] ' % (ser(list(s.condition)), ser(s.action)) for s in parsed) + ']'
                    ast_ = AST(parsed, 't.vcd')
                    exprs, symbols = ast_.emit()
                    forms = ser(exprs)
                    otext = ''.join(wal_str(stmt) + '\n\n' for stmt in exprs)
                    back = read_wal_sexprs(otext)
                    same = 'o-same' if ser(list(back)).replace('(', '[').replace(')', ']') == forms.replace('(', '[').replace(')', ']') else 'o-DIFF'
            except BaseException as e:      # noqa: B902
                self.model_ok = False
                return 'err PARSE-%s' % type(e).__name__, False
            self.model_cmds.append('wawk S%s %s' % (hx('t.vcd'), stm))
            w2 = fresh_wal()
            self.w = w2

            def go():
                w2.load('t.vcd', 'WAWK_TRACE', keep_signals=symbols)
                for e in exprs:
                    w2.eval(e)
            r, ok, _ = self.capture(go)
            if not ok:
                return r, False
            return 'ok S%s %s %s' % (hx(''.join(self.out)), same, forms), True
        if name == 'wawkx':
            # one WAWK expression: the grammar's expr rule and the TreeToWal transformer
            text = cmd[1]
            self.model_cmds.append('wawkx S%s' % hx(text))
            from lark import Lark
            from lark.exceptions import LarkError
            from wawk.parser import WAWK_GRAMMAR, TreeToWal
            global _WAWK_EXPR
            try:
                _WAWK_EXPR
            except NameError:
                _WAWK_EXPR = Lark(WAWK_GRAMMAR, start='expr')
            try:
                with contextlib.redirect_stdout(io.StringIO()):
                    r = TreeToWal().transform(_WAWK_EXPR.parse(text))
            except LarkError:
                return 'err P', True
            except BaseException as e:      # noqa: B902
                return 'ok OTHER-EXCEPTION-%s' % type(e).__name__, True
            return 'ok ' + ser(r), True
        if name == 'idem':
            # passes applied once vs twice to every form, both versions evaluated on copies of this interpreter
            import copy
            from wal.passes import expand, optimize, resolve
            self.model_ok = False
            forms = cmd[1]
            wa, wb = copy.deepcopy(w), copy.deepcopy(w)
            bufa, bufb = io.StringIO(), io.StringIO()
            for text in forms:
                def passes(wx, e):
                    ec = wx.eval_context
                    return resolve(optimize(expand(ec, e, parent=ec.global_environment)), start=ec.global_environment.environment)
                outcome = []
                for wx, twice, buf in ((wa, False, bufa), (wb, True, bufb)):
                    try:
                        with contextlib.redirect_stdout(buf):
                            e = passes(wx, read_wal_sexpr(text))
                            if twice:
                                e = passes(wx, e)
                            shape = ser(e)
                            v = wx.eval_context.eval(e) if e or e == 0 else None
                        outcome.append(('ok', shape, ser(v)))
                    except BaseException as ex:      # noqa: B902
                        outcome.append(('err', classify(ex), ''))
                if outcome[0] != outcome[1]:
                    return 'ok DIFF form %s once=%s twice=%s' % (text, outcome[0], outcome[1]), True
                if outcome[0][0] == 'err':
                    break
            def clean(t):
                cut = t.find(BANNER)
                return t[:cut] if cut >= 0 else t
            if clean(bufa.getvalue()) != clean(bufb.getvalue()):
                return 'ok DIFF output once=%r twice=%r' % (bufa.getvalue()[-200:], bufb.getvalue()[-200:]), True
            return 'ok same', True
        if name == 'step':
            n, tid = cmd[1], cmd[2]
            self.model_cmds.append('step I%d %s' % (n, 'N' if tid is None else 'S' + hx(tid)))
            r, ok, v = self.capture(lambda: w.step(n, tid))
            return (r if not ok else 'ok ' + ser(list(v))), ok
        if name == 'dump':
            # C01/C18: everything observable about trace cmd[1], through WAL expressions
            tid = cmd[1]
            self.model_cmds.append('dump S%s' % hx(tid))
            try:
                return self.dump(tid), True
            except BaseException as e:   # noqa: B902
                return 'err ' + classify(e), False
        raise ValueError('unknown command ' + name)

    def dump(self, tid):
        """same rendering as Cases.dump_trace, observed through the evaluator"""
        w = self.w
        ev = lambda s: w.eval_str(s)           # noqa: E731
        with contextlib.redirect_stdout(io.StringIO()):
            mx = ev('MAX-INDEX')
            signals = ev('SIGNALS')
            scopes = ev('SCOPES')
            cols = {s: [] for s in signals}
            ts = []
            start = ev('INDEX')
            w.step(-start)
            for i in range(mx + 1):
                assert ev('INDEX') == i
                ts.append(ev('TS'))
                for s in signals:
                    cols[s].append(w.eval_context.eval(Symbol(s)))
                w.step(1)
            w.step(start - ev('INDEX'))
            widths = {s: w.eval(WList([Operator.SIGNAL_WIDTH, s])) for s in signals}
        out = 'max=%d ts=%s scopes=%s signals=' % (
            mx, ''.join('%d,' % t for t in ts), ''.join(hx(s) + ',' for s in scopes))
        done = set()
        for s in signals:
            out += '%s:%s:%s ' % (hx(s), widths[s], ''.join(ser(v) + ',' for v in cols[s]))
        return 'ok ' + out

    def final(self):
        w = self.w
        ec = w.eval_context
        idx = ''.join('%s:%d,' % (hx(t.tid), t.index) for t in w.traces.traces.values())
        return 'out=%s idx=%s scope=%s group=%s stack=%d cur=%s n=%d' % (
            hx(''.join(self.out)), idx, hx(ec.scope), hx(ec.group), len(w.traces.index_stack),
            'g' if ec.environment is ec.global_environment else 'n', w.traces.n_traces)


def run_case(case):
    sess = Session()
    results = []
    try:
        stopped = False
        for cmd in case['cmds']:
            try:
                r, ok = sess.run(cmd)
            except Timeout:
                r, ok = 'err TIMEOUT', False
            results.append(r)
            if not ok:
                stopped = True
                break
        final = 'STOP' if stopped else 'END ' + sess.final()
        return {'id': case.get('id'), 'results': results, 'final': final,
                'model_line': ' ; '.join(sess.model_cmds) if sess.model_ok else None}
    finally:
        sess.close()


def main():
    for line in sys.stdin:
        line = line.strip()
        if not line:
            continue
        case = json.loads(line)
        try:
            out = run_case(case)
        except BaseException as e:   # noqa: B902
            out = {'id': case.get('id'), 'crash': '%s: %s' % (type(e).__name__, e)}
        REAL_STDOUT.write(json.dumps(out) + '\n')
        REAL_STDOUT.flush()


if __name__ == '__main__':
    main()
