"""C20 — WAWK transpiles with AWK meaning; wawk -o output is the executed program."""
import os
import shutil
import subprocess
import lib
import gen

PID = 'C20'
RULE = ('each evaluation is one WAWK program generated from the statement/expression fragment (integer arithmetic with + - *, '
        'comparisons inside parentheses, && and ||, assignments, compound assignment, if/else, for-in, arrays with string/symbol '
        'keys, print with string escapes, BEGIN/END, 0..4 condition statements with 1..3 conditions) rendered with minimal '
        'parentheses and run over a generated trace: printed output of direct execution (parse_wawk + emit + Wal.eval, as the '
        'wawk command does) is compared with an AWK-style reference evaluation over the trace data (oracle); the text written '
        'for -o is read back with the WAL reader and compared with the emitted forms; the emitted forms are compared with the '
        'Coq model of emit applied to the parsed statements; a sample also runs the real wawk command (direct and -o). '
        'Expressions: random trees (depth <= 5) over numbers, symbols, strings, calls, ! and the 12 binary operators are written with parentheses only '
        'where the levels require them (plus random redundant pairs), in three spacing styles (single spaces, none, random white space and // comments), '
        'and parsed by the implementation (expr rule + TreeToWal) and by the Coq parser: both must yield the tree (oracle and correspondence); a fixed '
        'list of malformed texts must be rejected by both. '
        'distinct = distinct program texts; non-trivial = program has a condition statement and an END print')

PREC = {'||': 1, '&&': 2, 'cmp': 3, '+': 4, '-': 4, '*': 5}


class G:
    def __init__(self, rng, info):
        self.rng = rng
        self.info = info
        self.sigs = sorted(x for x in info['signals'] if x != 'top.kx')      # top.kx is used as an array index only
        self.vars = ['n', 'm', 'acc', 'k']
        # names that are a loop variable in one statement and an ordinary (pre-defined by emit) variable in another
        self.xvars = ['w', 'u']
        self.xassigned = set()

    def arith(self, depth, locals_=()):
        rng = self.rng
        if depth <= 0 or rng.random() < 0.3:
            r = rng.random()
            if r < 0.35:
                return ('num', rng.randrange(0, 6))
            if r < 0.6:
                return ('var', rng.choice(self.vars + list(locals_)))
            if r < 0.9:
                return ('sig', rng.choice(self.sigs))
            return ('sig', 'INDEX')
        op = rng.choice(['+', '-', '*', '+', '-'])
        return ('bin', op, self.arith(depth - 1, locals_), self.arith(depth - 1, locals_))

    def cond(self, depth):
        rng = self.rng
        r = rng.random()
        if depth <= 0 or r < 0.3:
            if rng.random() < 0.4:
                return ('sig', rng.choice([s for s in self.sigs if s.endswith('clk')] or self.sigs))
            if rng.random() < 0.3:
                return ('cmp', rng.choice(['<', '>', '==']), ('var', rng.choice(self.vars)), ('num', rng.randrange(0, 6)))
            return ('cmp', rng.choice(['>', '<', '==', '!=', '>=', '<=']), self.arith(1), self.arith(1))
        return ('bin', rng.choice(['&&', '||']), self.cond(depth - 1), self.cond(depth - 1))

    def stmt(self, depth, locals_=()):
        rng = self.rng
        r = rng.random()
        free_x = [x for x in self.xvars if x not in locals_]
        if r < 0.08 and free_x:
            x = rng.choice(free_x)
            self.xassigned.add(x)
            return ('assign', x, self.arith(1, locals_))
        if r < 0.3:
            return ('assign', rng.choice(self.vars), self.arith(2, locals_))
        if r < 0.5:
            return ('compound', rng.choice(self.vars), rng.choice(['+', '-', '*']), self.arith(1, locals_))
        if r < 0.62 and depth > 0:
            return ('if', self.cond(1), [self.stmt(depth - 1, locals_)], [self.stmt(depth - 1, locals_)] if rng.random() < 0.6 else None)
        if r < 0.72 and depth > 0:
            v = 'e%d' % depth
            if free_x and rng.random() < 0.4:
                v = rng.choice(free_x)
            return ('forin', v, [rng.randrange(0, 5) for _ in range(rng.randrange(0, 4))], [self.stmt(depth - 1, tuple(locals_) + (v,))])
        if r < 0.82:
            return ('aset', 'arr', rng.choice(['"a"', '"b"', 'key', 'top.kx']), self.arith(1, locals_))
        if r < 0.9:
            return ('aget', rng.choice(self.vars), 'arr', rng.choice(['"a"', '"b"', 'key']))
        return ('print', [rng.choice([('str', rng.choice(['x=', 'a b', 't\\t', 'q\\"q', 'nl\\n', '', 'bs\\\\\\"q', 'e\\\\', 'C:\\\\temp', '\\\\n', 'x\\\\ry\\\\\\"'])), self.arith(1, locals_)]) for _ in range(rng.randrange(1, 4))])

    def program(self):
        rng = self.rng
        # every variable that is read is assigned somewhere (emit pre-defines assigned variables with 0;
        # reading a variable that is never assigned is an error in WAL)
        begin = [('assign', v, ('num', rng.randrange(0, 4))) for v in self.vars] + [('assign', 'key', ('num', rng.randrange(3)))]
        begin.append(('aset', 'arr', '"z"', ('num', 0)))
        if rng.random() < 0.5:
            begin.append(('print', [('str', 'begin')]))
        stmts = []
        for _ in range(rng.randrange(0, 5)):
            if stmts and rng.random() < 0.35:
                conds = list(rng.choice(stmts)[0])        # the same condition list as an earlier statement
            else:
                conds = [self.cond(rng.randrange(0, 3)) for _ in range(rng.randrange(1, 4))]
            acts = [self.stmt(2) for _ in range(rng.randrange(1, 4))]
            if rng.random() < 0.5:
                acts.append(('print', [('str', 's%d ' % len(stmts)), ('sig', 'INDEX')]))
            stmts.append((conds, acts))
        end = [('print', [('str', 'n='), ('var', 'n'), ('str', ' m='), ('var', 'm'), ('str', ' acc='), ('var', 'acc'), ('str', ' k='), ('var', 'k')])]
        if rng.random() < 0.4:
            end.append(('print', [('str', 'arr.a='), ('agetx', 'arr', '"a"')]))
        for x in sorted(self.xassigned):
            end.append(('print', [('str', x + '='), ('var', x)]))
        return begin, stmts, end


def r_expr(e, parent=0, right=False):
    k = e[0]
    if k == 'num':
        return str(e[1])
    if k in ('var', 'sig'):
        return e[1]
    if k == 'str':
        return '"%s"' % e[1]
    if k == 'agetx':
        return '%s[%s]' % (e[1], e[2])
    if k == 'cmp':
        # the grammar gives comparisons no precedence relative to arithmetic: arithmetic operands get their own parentheses
        return '(%s %s %s)' % (r_expr(e[2], 9), e[1], r_expr(e[3], 9))
    op = e[1]
    p = PREC[op]
    s = '%s %s %s' % (r_expr(e[2], p, False), op, r_expr(e[3], p, True))
    # left-associative: parentheses on the right operand at equal precedence, and whenever the parent binds tighter
    if p < parent or (p == parent and right):
        return '(' + s + ')'
    return s


def r_stmt(s):
    k = s[0]
    if k == 'assign':
        return '%s = %s;' % (s[1], r_expr(s[2]))
    if k == 'compound':
        return '%s %s= %s;' % (s[1], s[2], r_expr(s[3]))
    if k == 'if':
        t = 'if (%s) { %s }' % (r_expr(s[1]), ' '.join(r_stmt(x) for x in s[2]))
        if s[3] is not None:
            t += ' else { %s }' % ' '.join(r_stmt(x) for x in s[3])
        return t
    if k == 'forin':
        return 'for (%s in [%s]) { %s }' % (s[1], ', '.join(map(str, s[2])), ' '.join(r_stmt(x) for x in s[3]))
    if k == 'aset':
        return '%s[%s] = %s;' % (s[1], s[2], r_expr(s[3]))
    if k == 'aget':
        return '%s = %s[%s];' % (s[1], s[2], s[3])
    if k == 'print':
        return 'print(%s);' % ', '.join(r_expr(x) for x in s[1])
    raise ValueError(k)


def render(prog):
    begin, stmts, end = prog
    lines = []
    if begin:
        lines.append('BEGIN: { %s }' % ' '.join(r_stmt(s) for s in begin))
    for conds, acts in stmts:
        lines.append('%s: { %s }' % (', '.join(r_expr(c) for c in conds), ' '.join(r_stmt(s) for s in acts)))
    lines.append('END: { %s }' % ' '.join(r_stmt(s) for s in end))
    return '\n'.join(lines) + '\n'


class AwkRef:
    """BEGIN once; for each index in order the statements in source order whose conditions all hold; END once"""

    def __init__(self, info):
        self.info = info
        self.vars = {}
        self.arr = {}
        self.out = ''
        self.idx = 0

    def val(self, e, loc):
        k = e[0]
        if k == 'num':
            return e[1]
        if k == 'var':
            return loc[e[1]] if e[1] in loc else self.vars.get(e[1], 0)
        if k == 'sig':
            return self.idx if e[1] == 'INDEX' else self.info['signals'][e[1]][self.idx]
        if k == 'str':
            return e[1].encode().decode('unicode_escape')
        if k == 'agetx':
            return self.arr.get(self.key(e[2], loc), 0)
        if k == 'cmp':
            a, b = self.val(e[2], loc), self.val(e[3], loc)
            return {'>': a > b, '<': a < b, '==': a == b, '!=': a != b, '>=': a >= b, '<=': a <= b}[e[1]]
        a = self.val(e[2], loc)
        if e[1] == '&&':
            return bool(a) and bool(self.val(e[3], loc))
        if e[1] == '||':
            return bool(a) or bool(self.val(e[3], loc))
        b = self.val(e[3], loc)
        return a + b if e[1] == '+' else a - b if e[1] == '-' else a * b

    def key(self, k, loc):
        if k.startswith('"'):
            return k.strip('"')
        if k in self.info['signals']:
            return str(self.info['signals'][k][self.idx])
        v = loc[k] if k in loc else self.vars.get(k, 0)
        return str(v)

    def show(self, v):
        if isinstance(v, bool):
            return 'true' if v else 'false'
        return str(v)

    def run_stmt(self, s, loc):
        k = s[0]
        if k == 'assign':
            self.vars[s[1]] = self.val(s[2], loc)
        elif k == 'compound':
            a, b = self.vars.get(s[1], 0), self.val(s[3], loc)
            self.vars[s[1]] = a + b if s[2] == '+' else a - b if s[2] == '-' else a * b
        elif k == 'if':
            if self.val(s[1], loc):
                for x in s[2]:
                    self.run_stmt(x, loc)
            elif s[3] is not None:
                for x in s[3]:
                    self.run_stmt(x, loc)
        elif k == 'forin':
            for v in s[2]:
                l2 = dict(loc)
                l2[s[1]] = v
                for x in s[3]:
                    self.run_stmt(x, l2)
        elif k == 'aset':
            self.arr[self.key(s[2], loc)] = self.val(s[3], loc)
        elif k == 'aget':
            self.vars[s[1]] = self.arr.get(self.key(s[3], loc), 0)
        elif k == 'print':
            self.out += ''.join(self.show(self.val(x, loc)) for x in s[1]) + '\n'

    def run(self, prog):
        begin, stmts, end = prog
        for s in begin:
            self.run_stmt(s, {})
        if stmts:
            for i in range(self.info['n']):
                self.idx = i
                for conds, acts in stmts:
                    if all(bool(self.val(c, {})) for c in conds):
                        for s in acts:
                            self.run_stmt(s, {})
        self.idx = 0
        for s in end:
            self.run_stmt(s, {})
        return self.out


def cli_check(rng, items, rep):
    """the real command on a few programs: direct output and -o text"""
    root = os.path.join(lib.VERIF, '.run', 'c20-%d' % os.getpid())
    os.makedirs(root, exist_ok=True)
    env = dict(os.environ, PYTHONPATH=lib.REPO, PYTHONHASHSEED='0', PYTHONDONTWRITEBYTECODE='1')
    fails = []
    for k, (src, vcd, want) in enumerate(items):
        d = os.path.join(root, 'p%d' % k)
        os.makedirs(d, exist_ok=True)
        open(os.path.join(d, 'p.wawk'), 'w').write(src)
        open(os.path.join(d, 't.vcd'), 'w').write(vcd)
        p = subprocess.run([lib.PY, '-m', 'wawk.wawk', 'p.wawk', 't.vcd'], cwd=d, env=env, stdin=subprocess.DEVNULL,
                           stdout=subprocess.PIPE, stderr=subprocess.PIPE, text=True, timeout=120)
        if p.returncode != 0 or p.stdout != want:
            fails.append(f'wawk command on {src!r}: exit {p.returncode} output {p.stdout[-300:]!r} stderr {p.stderr[-200:]!r} expected {want!r}')
        p2 = subprocess.run([lib.PY, '-m', 'wawk.wawk', 'p.wawk', 't.vcd', '-o', 'out.wal'], cwd=d, env=env, stdin=subprocess.DEVNULL,
                            stdout=subprocess.PIPE, stderr=subprocess.PIPE, text=True, timeout=120)
        if p2.returncode != 0 or not os.path.exists(os.path.join(d, 'out.wal')):
            fails.append(f'wawk -o on {src!r}: exit {p2.returncode} {p2.stderr[-200:]!r}')
        else:
            # the written program, run with the wal command, prints the same
            p3 = subprocess.run([lib.PY, '-m', 'wal', 'out.wal', '-l', 't.vcd'], cwd=d, env=env, stdin=subprocess.DEVNULL,
                                stdout=subprocess.PIPE, stderr=subprocess.PIPE, text=True, timeout=120)
            if p3.stdout != want:
                fails.append(f'program written by wawk -o for {src!r} prints {p3.stdout[-300:]!r} (exit {p3.returncode}) expected {want!r}')
        shutil.rmtree(d, ignore_errors=True)
    shutil.rmtree(root, ignore_errors=True)
    return fails


# ---- the expression grammar: trees -> text (parentheses only where the levels require them) -> parser ----
XLVL = {'||': 1, '&&': 2, '==': 3, '!=': 3, '>': 3, '<': 3, '>=': 3, '<=': 3, '+': 4, '-': 4, '*': 5, '/': 5}
XOPS = list(XLVL)
XSYMS = ['a', 'b1', 'top.a', '_x', 's$1', 'clk', 'x.y.z', 'A_b', 'q']
XFUNS = ['foo', 'sum2', 'g', 'list', 'length', 'max', 'min', 'first', 'rest']
XOPNAMES = {'list', 'length', 'max', 'min', 'first', 'rest'}
XSTRS = ['hi', 'a b', 'x+y', '//no comment', '(', 'it is', '']


def x_tree(rng, depth):
    r = rng.random()
    if depth <= 0 or r < 0.25:
        k = rng.random()
        if k < 0.4:
            return ('num', rng.choice([0, 1, 2, 7, 10, 255, 1000, -1, -3, -42]))
        if k < 0.85:
            return ('sym', rng.choice(XSYMS))
        return ('str', rng.choice(XSTRS))
    if r < 0.35:
        return ('not', x_tree(rng, depth - 1))
    if r < 0.45:
        return ('call', rng.choice(XFUNS), [x_tree(rng, depth - 1) for _ in range(rng.randrange(0, 4))])
    return ('bin', rng.choice(XOPS), x_tree(rng, depth - 1), x_tree(rng, depth - 1))


def x_lvl(e):
    return XLVL[e[1]] if e[0] == 'bin' else 6 if e[0] == 'not' else 7


def x_tokens(e, p, rng, extra):
    """token texts of e at a position that requires level >= p; extra: probability of a redundant pair of parentheses"""
    if e[0] == 'num':
        body = [str(e[1])]
    elif e[0] == 'sym':
        body = [e[1]]
    elif e[0] == 'str':
        body = ['"%s"' % e[1]]
    elif e[0] == 'not':
        body = ['!'] + x_tokens(e[1], 6, rng, extra)
    elif e[0] == 'call':
        body = [e[1], '(']
        for i, a in enumerate(e[2]):
            body += ([','] if i else []) + x_tokens(a, 1, rng, extra)
        body.append(')')
    else:
        l = XLVL[e[1]]
        if l == 3:
            body = x_tokens(e[2], 4, rng, extra) + [e[1]] + x_tokens(e[3], 4, rng, extra)
        else:
            body = x_tokens(e[2], l, rng, extra) + [e[1]] + x_tokens(e[3], l + 1, rng, extra)
    if x_lvl(e) < p or rng.random() < extra:
        return ['('] + body + [')']
    return body


def x_join(toks, rng, style):
    if style == 'spaced':
        return ' '.join(toks)
    out = []
    for i, t in enumerate(toks):
        out.append(t)
        if i + 1 == len(toks):
            break
        if style == 'tight':
            sep = ''
        else:
            sep = rng.choice(['', ' ', '  ', '\t', '\n', ' // note\n', '\r\n ', ' \f'])
        # a division directly followed by another division sign or a comment would start a comment
        if sep == '' and t == '/' and toks[i + 1].startswith('/'):
            sep = ' '
        out.append(sep)
    return ''.join(out)


def x_ser(e):
    hx = lambda t: t.encode().hex()          # noqa: E731
    opn = lambda o: '=' if o == '==' else o  # noqa: E731
    if e[0] == 'num':
        return 'I%d' % e[1]
    if e[0] == 'sym':
        return 'Y' + hx(e[1])
    if e[0] == 'str':
        return 'S' + hx(e[1])
    if e[0] == 'not':
        return '[ O%s %s ]' % (hx('!'), x_ser(e[1]))
    if e[0] == 'call':
        head = ('O' if e[1] in XOPNAMES else 'Y') + hx(e[1])
        return '[ ' + ' '.join([head] + [x_ser(a) for a in e[2]]) + ' ]'
    return '[ O%s %s %s ]' % (hx(opn(e[1])), x_ser(e[2]), x_ser(e[3]))


X_MALFORMED = ['a + * b', 'a < b < c', '(a', 'a)', 'f(,)', 'f(a,)', '1 2', 'a -- 1', '&& a', 'a &', 'a | b', '!', '', 'a +', '()', 'a == == b',
               '1a', '(a)(b)', 'a - - 1', 'a ! b', '"open', 'a,b', 'a >= <= b', '!!', 'f((a)', 'a */ b', '+ 1', '- a']
X_OUTSIDE = ['a !== b', 'f(a b)', 'a b', 'a = 1', '~a', 'a[1]', 'a@1', '[1, 2]', 'a 1', '#g', 'a.b c', '"a\\n"', 'x != = y']


def x_cases(rng, n):
    cases = []
    per = 40
    items = []
    for k in range(n):
        e = x_tree(rng, rng.randrange(0, 6))
        style = rng.choice(['spaced', 'tight', 'mixed', 'mixed'])
        extra = rng.choice([0.0, 0.0, 0.15, 0.4])
        items.append((x_join(x_tokens(e, 1, rng, extra), rng, style), 'ok ' + x_ser(e)))
    for t in X_MALFORMED:
        items.append((t, 'err P'))
    chunks = [items[k:k + per] for k in range(0, len(items), per)]
    # texts outside the modelled fragment, one session each (the model answers "unmodelled", which ends its session)
    chunks += [[(t, None)] for t in X_OUTSIDE]
    for chunk in chunks:
        cases.append({'id': 0, 'kind': 'expr', 'cmds': [['wawkx', t] for t, _ in chunk], 'chunk': chunk, 'nontrivial': False,
                      'src': chunk[0][0]})
    return cases


def run(tier, seed, replay=None):
    rep = lib.Report(PID, tier, seed)
    build = lib.Build().run()
    rep.proof = lib.compile_props(PID)
    rng = lib.rng_for(seed, PID)
    n = 150 if tier == 'quick' else 4000
    cases = []
    for c in range(n):
        vcd, info = gen.simple_trace(rng, n=rng.randrange(1, 7), scopes={'top': ['clk', 'a', 'b', 'kx']})
        g = G(rng, info)
        prog = g.program()
        src = render(prog)
        want = AwkRef(info).run(prog)
        cases.append({'id': c, 'cmds': [['file', 't.vcd', vcd], ['wawk', src]], 'src': src, 'want': want, 'vcd': vcd,
                      'nontrivial': bool(prog[1])})

    xc = x_cases(rng, 400 if tier == 'quick' else 60000)
    for c in xc:
        c['id'] = len(cases)
        cases.append(c)

    def oracle(case, impl):
        res = impl.get('results') or []
        if case.get('kind') == 'expr':
            for i, (t, want) in enumerate(case['chunk']):
                if i >= len(res):
                    return f'session stopped at {res[-1:]}'
                if want is not None and lib.canon(res[i]) != lib.canon(want):
                    return f'the expression {t!r} is parsed as {res[i][:300]} but its reading by levels (left to right, * / over + -, comparisons, && over ||) is {want[:300]}'
            return None
        if len(res) < 2:
            return f'session stopped at {res[-1:]}'
        r = res[1]
        if not r.startswith('ok '):
            return f'WAWK program failed ({r[:100]}): {case["src"]!r}'
        parts = r.split()
        out = bytes.fromhex(parts[1][1:]).decode('utf-8', 'replace')
        if out != case['want']:
            return f'direct execution prints {out!r} but the AWK-style reading gives {case["want"]!r}: {case["src"]!r}'
        if parts[2] != 'o-same':
            return f'the text written for -o does not read back as the executed program ({parts[2]}): {case["src"]!r}'
        return None

    results = lib.run_sessions(cases)
    lib.std_checks(rep, results, oracle)
    k = 6 if tier == 'quick' else 60
    sample = rng.sample([c for c in cases if c.get('kind') != 'expr'], k)
    for msg in cli_check(rng, [(c['src'], c['vcd'], c['want']) for c in sample], rep):
        rep.oracle_failures.append({'case': {}, 'why': msg})
    rep.extra['cli_runs'] = k
    # known finding: integer index on the right-hand side
    kf = lib.run_sessions([{'id': 0, 'cmds': [['file', 't.vcd', cases[0]['vcd']], ['wawk', 'BEGIN: { arr[1] = 5; y = arr[1]; print(y); }\n']]}])
    r0 = (kf[0][1].get('results') or ['', ''])[1]
    rep.extra['known_probe'] = r0[:80]
    listed = [kk for kk in lib.load_known() if kk.get('property') == PID and kk.get('status') == 'open' and kk.get('input') == 'y = arr[1]']
    bad = not (r0.startswith('ok ') and bytes.fromhex(r0.split()[1][1:]).decode() == '5\n')
    if bad and listed:
        rep.known_hits.append(listed[0]['what'])
    elif bad:
        rep.oracle_failures.append({'case': {}, 'why': 'y = arr[1] does not read the array element: ' + r0[:100]})
    nx = 0
    for c in cases:
        if c.get('kind') == 'expr':
            for t, want in c['chunk']:
                nx += 1
                rep.count('expr-' + ('tree' if want and want.startswith('ok') else 'malformed' if want else 'outside-fragment'))
                if want and want.count('[') >= 2:
                    rep.nontrivial(t)
            continue
        if c['nontrivial']:
            rep.nontrivial(c['src'])
        rep.count('stmts=%d' % c['src'].count(': {'))
    rep.evaluations = len(cases) - len(xc) + nx
    rep.samples = [c['src'] for c in cases[:3]]
    return lib.finish(rep, build, level='proof', rule=RULE, assumptions=[
        'PARTIAL: of the Earley parser of wawk/parser.py the expression rules (numbers, symbols, plain strings, calls, ! * / + - comparisons && ||) '
        'are modelled (WawkParse.v) and compared on generated expression texts; for statements, that the parser reads the rendered text as the '
        'generated AST is decided by the differential run (reference evaluation of the AST vs execution of the parsed text)',
        'division, unary !, comparisons outside parentheses and integer array indices on the right-hand side are outside the generated fragment'])
