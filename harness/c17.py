"""C17 — completed evaluations leave a balanced context; run starts fresh."""
import lib
import gen

PID = 'C17'
RULE = ('(a) histories of up to 6 top-level evaluations, each a random nesting (depth <= 5) of calls, let, in-scope, in-group, '
        'in-groups, all-scopes, reval, find, whenever, timeframe, for around bodies that step, set/unset the scope, define or '
        'assign variables; after each evaluation CS, CG, |LOCAL-SIGNALS|, INDEX, the visibility of definitions, the saved-position '
        'stack and the current environment are compared with a reference that applies only the explicit persistent operations '
        'not enclosed by a restoring construct (oracle); (b) Wal.run of a program after such a history vs on a new interpreter; '
        '(c) Wal.eval keyword bindings over all subsets of pre-defined/fresh names. Every command also runs on the extracted '
        'Coq model. distinct = distinct nestings; non-trivial = nesting contains a restoring construct and a persistent operation')

TREE = {'top': ['clk', 'a', 'b'], 'top.u': ['a', 'q', 'r_valid', 'r_ready']}
SCOPES = ['top', 'top.u']
RESTORE_IDX = ('reval', 'find', 'findg', 'whenever', 'timeframe')
RESTORE_SCOPE = ('in-scope', 'in-group', 'in-groups', 'all-scopes')


class RefCtx:
    def __init__(self, n):
        self.n = n
        self.idx = 0
        self.scope = ''
        self.group = ''
        self.globals = set()
        self.counter = 0


def nest(rng, ref, depth, ridx, rscope, local, once, lsigs):
    """returns text; updates ref according to the property's rule.
    ridx/rscope: inside a construct that restores indices / scope; local: inside let/fn (defines are local);
    once: the body is executed exactly once"""
    if depth == 0 or rng.random() < 0.22:
        kind = rng.choice(['step', 'step', 'setscope', 'unsetscope', 'define', 'set', 'pure'])
        if kind == 'step':
            # no backward steps inside loops/scans (a scan whose body steps back never ends)
            k = rng.choice([1, 1, 2, -1]) if once else rng.choice([1, 1, 2])
            if not ridx and once:
                if 0 <= ref.idx + k <= ref.n - 1:
                    ref.idx += k
                return f'(step {k})'
            if ridx:
                return f'(step {k})'
            return '(+ 1 1)'
        if kind == 'setscope':
            s = rng.choice(SCOPES)
            if not once:
                return '(+ 2 2)'
            if not rscope:
                ref.scope = s
            return f'(set-scope {s})'
        if kind == 'unsetscope':
            if not once:
                return '(+ 2 3)'
            if not rscope:
                ref.scope = ''
            return '(unset-scope)'
        if kind == 'define' and once:
            ref.counter += 1
            name = 'z%d' % ref.counter
            if not local:
                ref.globals.add(name)
            return f'(define {name} {ref.counter})'
        if kind == 'set' and ref.globals:
            return '(set [%s 7])' % rng.choice(sorted(ref.globals))
        return rng.choice(['(+ top.a 1)', 'INDEX', '(length LOCAL-SIGNALS)', 'CS'])
    k = rng.choice(['do', 'let', 'call', 'in-scope', 'in-group', 'in-groups', 'all-scopes', 'reval', 'find', 'whenever',
                    'timeframe', 'for', 'if'])
    sub = lambda **kw: nest(rng, ref, depth - 1, kw.get('ridx', ridx), kw.get('rscope', rscope), kw.get('local', local),  # noqa: E731
                            kw.get('once', once), lsigs)
    if k == 'do':
        return '(do %s %s)' % (sub(), sub())
    if k == 'let':
        if rng.random() < 0.3:
            # a let that binds nothing still opens a scope: definitions in it are local
            return '(let () %s)' % sub(local=True)
        return '(let ([t%d 1]) %s)' % (depth, sub(local=True))
    if k == 'call':
        return '((fn [p%d] %s) 3)' % (depth, sub(local=True))
    if k == 'in-scope':
        return '(in-scope "%s" %s)' % (rng.choice(SCOPES), sub(rscope=True))
    if k == 'in-group':
        return '(in-group "%s" %s)' % (rng.choice(['top.u.r_', 'top.', 'g']), sub(rscope=True))
    if k == 'in-groups':
        return "(in-groups '(\"top.u.r_\" \"top.\") %s)" % sub(rscope=True, once=False)
    if k == 'all-scopes':
        inner = sub(rscope=True, once=False)
        return '(all-scopes %s)' % inner
    if k == 'reval':
        off = rng.choice([0, 1, -1])
        if once and not ridx:
            inr = 0 <= ref.idx + off <= ref.n - 1
        else:
            inr = False
        # when the offset may be out of range the body may not run at all: only index/scope-neutral bodies then
        if inr:
            return '(reval %s %d)' % (sub(ridx=True), off)
        return '(reval (+ top.a 1) %d)' % off
    if k == 'find':
        return '(find (do %s top.clk))' % sub(ridx=True, once=False)
    if k == 'whenever':
        return '(whenever top.clk %s)' % sub(ridx=True, once=False)
    if k == 'timeframe':
        return '(timeframe %s)' % sub(ridx=True, local=True)      # the macro wraps its body in a let
    if k == 'for':
        return "(for [e%d '(1 2)] %s)" % (depth, sub(once=False, local=True))
    return '(if 1 %s 0)' % sub()


def lsig_count(scope):
    if scope == '':
        return 0
    return len(TREE[scope])


def probe_text(ref):
    names = ['z%d' % i for i in range(1, ref.counter + 1)]
    return '(list CS CG INDEX (length LOCAL-SIGNALS) ' + ' '.join("(defined? '%s)" % n for n in names) + \
           ' ((fn [] (list ' + ' '.join(n for n in sorted(ref.globals)) + '))))'


def probe_expect(ref):
    names = ['z%d' % i for i in range(1, ref.counter + 1)]
    vals = [ref.scope, ref.group, ref.idx, lsig_count(ref.scope)] + [n in ref.globals for n in names]
    return vals


def gen_history(rng, cid):
    n = rng.randrange(2, 7)
    text, info = gen.simple_trace(rng, n=n, scopes=TREE)
    cmds = [['file', 't.vcd', text], ['load', 't.vcd', 'DEFAULT']]
    ref = RefCtx(n)
    checks = []
    for _ in range(rng.randrange(1, 7)):
        body = nest(rng, ref, rng.randrange(1, 6), False, False, False, True, None)
        cmds.append(['evalstr', '111', body])
        cmds.append(['evalstr', '111', probe_text(ref)])
        checks.append((len(cmds) - 1, probe_expect(ref), body))
    return {'id': cid, 'kind': 'history', 'cmds': cmds, 'checks': checks}


def targeted_histories(rng):
    """always run: scope-restoring constructs entered with a scope set, whose body changes the scope - for every kind
    of group / scope argument (with and without a scope part, trace id, unknown)"""
    out = []
    for pre in SCOPES:
        for body_inner in ('(unset-scope)', '(set-scope %s)' % SCOPES[0], '(set-scope %s)' % SCOPES[-1]):
            for wrap in ('(in-group "g" (do %s 1))', '(in-group "DEFAULT" (do %s 1))', '(in-group "top.u.r_" (do %s 1))',
                         '(in-group "top." (do %s 1))', '(in-scope "top" (do %s 1))', '(in-scope "nosuch" (do %s 1))',
                         "(in-groups '(\"g\" \"top.\") (do %s 1))", '(all-scopes (do %s 1))'):
                n = rng.randrange(2, 5)
                text, info = gen.simple_trace(rng, n=n, scopes=TREE)
                cmds = [['file', 't.vcd', text], ['load', 't.vcd', 'DEFAULT']]
                ref = RefCtx(n)
                ref.scope = pre
                checks = []
                cmds.append(['evalstr', '111', f'(set-scope {pre})'])
                cmds.append(['evalstr', '111', probe_text(ref)])
                checks.append((len(cmds) - 1, probe_expect(ref), f'(set-scope {pre})'))
                body = wrap % body_inner
                cmds.append(['evalstr', '111', body])
                cmds.append(['evalstr', '111', probe_text(ref)])
                checks.append((len(cmds) - 1, probe_expect(ref), body))
                out.append({'id': 0, 'kind': 'history', 'cmds': cmds, 'checks': checks})
    return out


def atom_macro_histories(rng):
    """always run: a macro whose expansion is not a list (a symbol), called at top level; definitions made afterwards are
    global (a function defined before sees them) and the interpreter is at top level at the end"""
    out = []
    for name, sym in (('getgx', 'gx'), ('cur-scope', 'CS')):
        n = rng.randrange(2, 5)
        text, info = gen.simple_trace(rng, n=n, scopes=TREE)
        cmds = [['file', 't.vcd', text], ['load', 't.vcd', 'DEFAULT']]
        want = []
        for t, w in (('(define gx 41)', None), (f"(defmacro {name} [] '{sym})", None), ('(defun rd [] after1)', None),
                     (f'({name})', 'ok I41' if sym == 'gx' else 'ok S'), ('(define after1 7)', None), ('(rd)', 'ok I7'),
                     (f'(list ({name}) ({name}))', None), ('(define after2 8)', None), ('((fn [] (+ after1 after2)))', 'ok I15'),
                     ("(list (defined? 'after1) (defined? 'after2))", 'ok ( B1 B1 )')):
            cmds.append(['evalstr', '111', t])
            if w is not None:
                want.append((len(cmds) - 1, w))
        out.append({'id': 0, 'kind': 'expect', 'cmds': cmds, 'want': want, 'what': f'a top-level call of the macro {name}, whose expansion is the symbol {sym}'})
    return out


def gen_run(rng, cid):
    """a history that leaves definitions, macros, aliases, scope, group and positions behind, then Wal.run"""
    n = rng.randrange(2, 7)
    text, info = gen.simple_trace(rng, n=n, scopes=TREE)
    base = [['file', 't.vcd', text], ['load', 't.vcd', 'DEFAULT']]
    hist = rng.sample([
        '(define x 5)', '(defmacro twice [e] `(do ,e ,e))', "(alias a 'top.b)", '(set-scope top.u)', '(step 1)',
        '(define f (fn [] 99))', '(defsig vs (+ top.a 1))', '(define CS2 CS)', '(in-group "top.u.r_" (define g CG))',
        '(defun when2 [x] x)', '(step 2)', "(alias clk 'top.a)"], rng.randrange(1, 8))
    prog = rng.choice([
        "(list INDEX CS CG (defined? 'x) (defined? 'f) (defined? 'twice) (length LOCAL-SIGNALS) top.a)",
        "(do (define x 1) (define f (fn [] x)) (step 1) (list (f) INDEX top.clk (find top.clk)))",
        "(do (defmacro twice [e] `(+ ,e ,e)) (list (twice 4) (in-scope \"top\" ~a) CS))",
        "(let ([a 3]) (list a top.a (count top.clk) INDEX TS))",
    ])
    if rng.random() < 0.25:
        # the program text was evaluated before, while a user macro of that name existed: run must not remember that
        hist = hist + ['(defmacro bump [x] `(+ ,x 1))', '(bump 5)']
        prog = '(bump 5)'
    a = {'id': cid, 'kind': 'run-after', 'cmds': base + [['evalstr', '111', h] for h in hist] + [['runstr', '111', prog]],
         'pos': 2 + len(hist), 'prog': prog, 'hist': hist}
    b = {'id': cid, 'kind': 'run-fresh', 'cmds': base + [['runstr', '111', prog]], 'pos': 2, 'prog': prog, 'hist': []}
    return a, b


def gen_kwargs(rng, cid):
    pre = {'x': 10, 'y': 0, 's': '', 'z': None}
    cmds = [['evalstr', '111', '(define x 10)'], ['evalstr', '111', '(define y 0)'], ['evalstr', '111', '(define s "")'],
            ['evalstr', '111', '(define z (if #f 1))']]          # a variable that holds None
    names = ['x', 'y', 's', 'p', 'q', 'z']
    subset = [nm for nm in names if rng.random() < 0.5] or ['x']
    kw = {nm: lib.ser_py(rng.choice([1, 2, 'v', 0])) for nm in subset}
    expr = '(list ' + ' '.join(subset) + ')'
    cmds.append(['evalstr', '111', expr, kw])
    want_during = 'ok ( ' + ' '.join(kw[nm] for nm in subset) + ' )'
    probe = '(list ' + ' '.join("(if (defined? '%s) %s 'undef)" % (nm, nm) for nm in names) + ')'
    cmds.append(['evalstr', '111', probe])
    want_after = 'ok ( ' + ' '.join((lib.ser_py(pre[nm]) if nm in pre else 'Y' + b'undef'.hex()) for nm in names) + ' )'
    return {'id': cid, 'kind': 'kwargs', 'cmds': cmds, 'want': [(4, want_during), (5, want_after)], 'subset': subset}


def oracle(case, impl):
    res = impl.get('results') or []
    if case['kind'] == 'history':
        for pos, want, body in case['checks']:
            if len(res) <= pos:
                return f'session stopped at {res[-1:]}; last evaluation {case["cmds"][len(res) - 1][2][:300]}'
            got = res[pos].split()
            w = lib.ser_py(want).split()
            # compare the fixed fields; the trailing function call only has to succeed
            if got[:2] != ['ok', '('] or got[2:2 + len(w) - 2] != w[1:-1]:
                return f'context after {body[:400]}: {res[pos][:200]} expected {lib.ser_py(want)}'
        f = lib.final_fields(impl.get('final', ''))
        if impl.get('final', '').startswith('END') and (f.get('stack') != '0' or f.get('cur') != 'g'):
            return f'saved positions pending / not at top level after {[c[2] for c in case["cmds"][2::2]][:3]}: stack={f.get("stack")} cur={f.get("cur")}'
    elif case['kind'] == 'expect':
        for pos, want in case['want']:
            if len(res) <= pos:
                return f'session stopped at {res[-1:]} ({case["what"]})'
            if lib.canon(res[pos]) != lib.canon(want):
                return f'{case["what"]}: {case["cmds"][pos][2]} gives {res[pos][:200]} expected {want}'
        f = lib.final_fields(impl.get('final', ''))
        if impl.get('final', '').startswith('END') and (f.get('stack') != '0' or f.get('cur') != 'g'):
            return f'not at top level after {case["what"]}: stack={f.get("stack")} cur={f.get("cur")}'
    elif case['kind'] == 'kwargs':
        for pos, want in case['want']:
            if len(res) <= pos:
                return f'session stopped at {res[-1:]} (keyword bindings {case["subset"]})'
            if lib.canon(res[pos]) != lib.canon(want):
                return f'keyword bindings {case["subset"]}: {res[pos]} expected {want}'
    return None


def run(tier, seed, replay=None):
    rep = lib.Report(PID, tier, seed)
    build = lib.Build().run()
    rep.proof = lib.compile_props(PID)
    rng = lib.rng_for(seed, PID)
    n = 100 if tier == 'quick' else 12000
    cases = [gen_history(rng, c) for c in range(n)] + targeted_histories(rng) + atom_macro_histories(rng)
    pairs = []
    for c in range(n // 2):
        a, b = gen_run(rng, len(cases))
        pairs.append((len(cases), len(cases) + 1))
        cases += [a, b]
    for c in range(n // 2):
        cases.append(gen_kwargs(rng, len(cases)))
    for i, c in enumerate(cases):
        c['id'] = i
    results = lib.run_sessions(cases)
    lib.std_checks(rep, results, oracle)
    for ia, ib in pairs:
        a, b = results[ia][1], results[ib][1]
        ra = (a.get('results') or [])
        rb = (b.get('results') or [])
        pa, pb = cases[ia]['pos'], cases[ib]['pos']
        va = ra[pa] if len(ra) > pa else 'missing ' + str(ra[-1:])
        vb = rb[pb] if len(rb) > pb else 'missing ' + str(rb[-1:])
        if lib.canon(lib.strip_err_out(va)) != lib.canon(lib.strip_err_out(vb)):
            rep.oracle_failures.append({'case': cases[ia], 'why': f'Wal.run of {cases[ia]["prog"]} after history {cases[ia]["hist"]} gives {va[:200]}, '
                                                                 f'on a new interpreter {vb[:200]}'})
    for c in cases:
        rep.count(c['kind'])
        if c['kind'] == 'history':
            for pos, want, body in c['checks']:
                if any(k in body for k in ('reval', 'find', 'whenever', 'timeframe', 'in-scope', 'in-group', 'all-scopes')) and \
                   any(k in body for k in ('(step', 'set-scope', '(define')):
                    rep.nontrivial(body)
    rep.evaluations = sum(len(c.get('checks', [1])) for c in cases)
    rep.samples = [c['checks'][0][2] for c in cases[:4]]
    return lib.finish(rep, build, level='proof', rule=RULE, assumptions=[
        'evaluations complete successfully (after an error the implementation restores nothing; outside the property)',
        'single trace; timeframe with several traces is a known finding (C15)'])
