"""C09 — integer and bit-vector arithmetic is exact at any width."""
import lib

PID = 'C09'
RULE = ('each evaluation is one WAL expression with operands around 2^k, 2^53, 2^63, 2^64, up to 256 bits, '
        'negative where defined, literal or read from a generated VCD signal; compared with (a) an independent '
        'Python-integer oracle and (b) the extracted Coq model; distinct = distinct expression texts; '
        'non-trivial = at least one operand >= 2^8 or negative, or a slice/conversion')


def big(rng, maxbits=256):
    k = rng.choice([1, 2, 7, 8, 9, 16, 31, 32, 33, 52, 53, 54, 63, 64, 65, 100, 127, 128, 200, 255, 256])
    k = min(k, maxbits)
    base = 1 << k
    return rng.choice([base - 1, base, base + 1, rng.getrandbits(k + 1), rng.getrandbits(max(k, 1)),
                       rng.randrange(0, 300)])


def signed(rng):
    v = big(rng)
    return -v if rng.random() < 0.3 else v


def gen_expr(rng, signals):
    """-> (text, expected python value, nontrivial?)"""
    kind = rng.choice(['add', 'sub', 'mul', 'mod', 'exp', 'cmp', 'bit', 'slice1', 'slice2', 'concat', 'cbin',
                       'sint', 's2i', 'i2s', 'sig', 'sigslice', 'signed', 'neg', 'eq'])
    lit = lambda z: str(z)    # noqa: E731
    if kind in ('add', 'sub', 'mul'):
        n = rng.choice([2, 2, 3, 4, 6]) if kind != 'sub' else rng.choice([1, 2, 3, 5])
        zs = [signed(rng) for _ in range(n)]
        if kind == 'add':
            v = sum(zs)
        elif kind == 'sub':
            v = -zs[0] if n == 1 else zs[0] - sum(zs[1:])
        else:
            v = 1
            for z in zs:
                v *= z
        op = {'add': '+', 'sub': '-', 'mul': '*'}[kind]
        if n >= 2 and rng.random() < 0.4:
            # some operands come from variables: the same arithmetic, not foldable before evaluation
            k = rng.sample(range(n), rng.randrange(1, n))
            names = {i: 'v%d' % i for i in k}
            binds = ' '.join(f'[{names[i]} {zs[i]}]' for i in k)
            args = ' '.join(names.get(i, lit(zs[i])) for i in range(n))
            return f'(let ({binds}) ({op} {args}))', v, True
        return f'({op} {" ".join(map(lit, zs))})', v, True
    if kind == 'mod':
        a, b = signed(rng), signed(rng) or 7
        return f'(mod {a} {b})', a % b, True
    if kind == 'exp':
        a = rng.choice([signed(rng) % 1000 - 500, 2, 3, 10, -2, 7, big(rng, 64)])
        b = rng.choice([0, 1, 2, 3, 5, 17, 40, 53, 54, 64, 100])
        return f'(** {a} {b})', a ** b, True
    if kind == 'cmp':
        a = signed(rng)
        b = rng.choice([a, a + 1, a - 1, signed(rng)])
        op = rng.choice(['<', '>', '<=', '>='])
        v = {'<': a < b, '>': a > b, '<=': a <= b, '>=': a >= b}[op]
        return f'({op} {a} {b})', v, True
    if kind == 'eq':
        a = signed(rng)
        b = rng.choice([a, a + 1, signed(rng)])
        op = rng.choice(['=', '!='])
        return f'({op} {a} {b})', (a == b) if op == '=' else (a != b), True
    if kind == 'bit':
        n = rng.choice([1, 2, 3, 4])
        zs = [signed(rng) for _ in range(n)]
        op = rng.choice(['bor', 'band', 'bxor'])
        v = zs[0]
        for z in zs[1:]:
            v = {'bor': v | z, 'band': v & z, 'bxor': v ^ z}[op]
        return f'({op} {" ".join(map(lit, zs))})', v, True
    if kind == 'slice1':
        x, i = signed(rng), rng.choice([0, 1, 7, 8, 31, 63, 64, 100, 255, 300])
        return f'(slice {x} {i})', (x >> i) & 1, True
    if kind == 'slice2':
        x = signed(rng)
        l = rng.choice([0, 1, 3, 8, 31, 32, 63, 64, 128])
        h = l + rng.choice([0, 1, 7, 8, 31, 32, 63, 64, 100])
        return f'(slice {x} {h} {l})', (x >> l) & ((1 << (h - l + 1)) - 1), True
    if kind == 'concat':
        x = signed(rng)
        l = rng.choice([0, 2, 8, 60])
        m = l + rng.choice([0, 3, 10, 64])
        h = m + 1 + rng.choice([0, 5, 64])
        txt = f'(+ (* (slice {x} {h} {m + 1}) (** 2 {m + 1 - l})) (slice {x} {m} {l}))'
        return txt, (x >> l) & ((1 << (h - l + 1)) - 1), True
    if kind == 'cbin':
        v, w = big(rng), rng.choice([0, 1, 8, 16, 64, 70, 300])
        return f'(convert/bin {v} {w})', format(v, 'b').rjust(w, '0'), True
    if kind == 'sint':
        n = rng.choice([1, 2, 8, 9, 32, 64, 65, 200])
        bits = ''.join(rng.choice('01') for _ in range(n))
        u = int(bits, 2)
        return f'(bits->sint "{bits}")', u - (1 << n) if bits[0] == '1' else u, True
    if kind == 's2i':
        base = rng.choice([2, 8, 10, 16])
        z = big(rng)
        digits = {2: format(z, 'b'), 8: format(z, 'o'), 10: str(z), 16: format(z, rng.choice(['x', 'X']))}[base]
        if rng.random() < 0.3:
            digits = '0' * rng.randrange(1, 4) + digits
        if base == 16 and rng.random() < 0.3:
            # zero-padded hex numerals whose second digit is b, d, e ...: they only look like a radix prefix
            digits = '0' + rng.choice('bBdDeEoO'.replace('o', 'c').replace('O', 'C')) + ''.join(rng.choice('0123456789abcdefABCDEF') for _ in range(rng.randrange(1, 8)))
            z = int(digits, 16)
        return f'(string->int "{digits}" {base})', z, True
    if kind == 'i2s':
        z = signed(rng)
        return f'(string->int (int->string {z}))', z, True
    if kind == 'neg':
        z = signed(rng)
        return f'(- {z})', -z, True
    if signals:
        name, w, val = rng.choice(signals)
        if kind == 'sig':
            return f'(+ {name} 0)', val, True
        if kind == 'sigslice':
            l = rng.randrange(0, w)
            h = rng.randrange(l, w + 3)
            return f'(slice {name} {h} {l})', (val >> l) & ((1 << (h - l + 1)) - 1), True
        if kind == 'signed':
            return f'(signed {name})', val - (1 << w) if val >> (w - 1) else val, True
    z = signed(rng)
    return f'(+ {z} 0)', z, True


def gen_vcd(rng):
    sigs = []
    lines = ['$timescale 1ns $end', '$scope module top $end']
    dump = ['#0']
    for k in range(rng.randrange(2, 6)):
        w = rng.choice([1, 2, 8, 9, 32, 53, 54, 63, 64, 65, 128, 200, 256])
        val = rng.getrandbits(w) if rng.random() < 0.7 else (1 << w) - 1 - rng.randrange(0, 2)
        name = f's{k}'
        idc = chr(33 + k)
        lines.append(f'$var wire {w} {idc} {name} $end')
        bits = format(val, 'b')
        if rng.random() < 0.5:
            bits = bits.rjust(w, '0')
        dump.append((f'b{bits} {idc}') if w > 1 else f'{bits}{idc}')
        sigs.append((f'top.{name}', w, val))
    lines += ['$upscope $end', '$enddefinitions $end'] + dump + ['#10']
    return '\n'.join(lines) + '\n', sigs


def exhaustive_small():
    """all values of width <= 8 (sampled pairs) and all slice bounds 0 <= l <= h <= 10"""
    out = []
    for x in list(range(0, 256, 5)) + [255, -1, -128, -255]:
        for l in range(0, 11):
            for h in range(l, 11):
                out.append((f'(slice {x} {h} {l})', (x >> l) & ((1 << (h - l + 1)) - 1)))
        for i in range(0, 11):
            out.append((f'(slice {x} {i})', (x >> i) & 1))
    return out


def run(tier, seed, replay=None):
    rep = lib.Report(PID, tier, seed)
    build = lib.Build().run()
    rep.proof = lib.compile_props(PID)
    rng = lib.rng_for(seed, PID)
    ncases = 60 if tier == 'quick' else 12000
    per = 25
    cases = []
    for c in range(ncases):
        with_trace = rng.random() < 0.5
        cmds = []
        sigs = []
        if with_trace:
            text, sigs = gen_vcd(rng)
            cmds += [['file', 't.vcd', text], ['load', 't.vcd', 'DEFAULT']]
        if with_trace and rng.random() < 0.4:
            # a first trace with the same signal names (other widths/values) is queried, unloaded and replaced
            text0, sigs0 = gen_vcd(rng)
            warm = [gen_expr(rng, sigs0) for _ in range(6)] + [(f'(signed {n})', 0, True) for n, w, v in sigs0]
            cmds = [['file', 't0.vcd', text0], ['load', 't0.vcd', 'DEFAULT'],
                    ['evalstr', '111', '(list ' + ' '.join(e[0] for e in warm) + ')'],
                    ['evalstr', '111', '(unload "DEFAULT")']] + cmds
        exprs = [gen_expr(rng, sigs) for _ in range(per)]
        cmds.append(['evalstr', '111', '(list ' + ' '.join(e[0] for e in exprs) + ')'])
        cases.append({'id': c, 'cmds': cmds, 'expect': [e[1] for e in exprs], 'texts': [e[0] for e in exprs]})
    if tier == 'thorough':
        ex = exhaustive_small()
        for k in range(0, len(ex), 200):
            chunk = ex[k:k + 200]
            cases.append({'id': len(cases), 'cmds': [['evalstr', '111', '(list ' + ' '.join(e[0] for e in chunk) + ')']],
                          'expect': [e[1] for e in chunk], 'texts': [e[0] for e in chunk]})
        rep.extra['exhaustive_slice_cases'] = len(ex)
    # error-class cases (one per session): division/modulo by zero, negative shift, bad digits
    for t in ['(mod 5 0)', '(slice 5 -1)', '(slice 5 1 3)', '(string->int "12" 2)', '(bits->sint "")', '(** 2 3 4)',
              '(< 1 2 3)', '(* 5)', '(bor)', '(string->int "ff" 7)', '(int->string "a")', '(convert/bin "a")']:
        cases.append({'id': len(cases), 'cmds': [['evalstr', '111', t]], 'expect': None, 'texts': [t]})

    def oracle(case, impl):
        if case['expect'] is None:
            return None
        last = impl['results'][-1] if impl.get('results') else ''
        want = 'ok ' + lib.ser_py(case['expect'])
        if lib.canon(last) != lib.canon(want):
            # locate the first differing element for the replay
            got = last.split()
            exp = want.split()
            for i, (g, e) in enumerate(zip(got[2:], exp[2:])):
                if g != e:
                    return f'expression {case["texts"][i] if i < len(case["texts"]) else "?"}: impl {g} expected {e}'
            return f'impl {last[:200]!r} expected {want[:200]!r}'
        return None

    results = lib.run_sessions(cases)
    lib.std_checks(rep, results, oracle)
    for case in cases:
        for t in case['texts']:
            rep.nontrivial(t)
            rep.count(t.split()[0].lstrip('('))
    rep.evaluations = sum(len(c['texts']) for c in cases)
    rep.samples = [c['texts'][0] for c in cases[:4]] + [cases[-1]['texts'][0]]
    return lib.finish(rep, build, level='proof', rule=RULE, assumptions=[
        'Python int is the mathematical integers (modelled as Coq Z); float exponentiation and negative exponents are outside the model',
        'exponents >= 0, slice bounds 0 <= l <= h, divisor != 0 for the theorems; error classes outside these are compared by correspondence only'])
