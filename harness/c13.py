"""C13 — virtual signals behave exactly like their body at every index."""
import lib
import gen
from c03 import split_list

PID = 'C13'
RULE = ('each evaluation is one probe in a session that defines virtual signals (bodies from the trace-reading fragment: '
        'arithmetic/logic over signals, @ offsets, other virtual signals, ~/# references; also defined inside captured scopes/'
        'groups and through a function called under several scopes) and visits the indices forward, backward, by random jumps, '
        'via @ and via find, with repeated reads and an intervening sample-at; at every visited index v, v@k and find/count/'
        'whenever over v are compared with the same forms over the body text evaluated directly (no cache) (oracle); every '
        'command also runs on the extracted Coq model. distinct = distinct (body, visit) pairs; non-trivial = body reads a signal')

TREE = {'top': ['clk', 'a', 'b'], 'top.u': ['a', 'q', 'r_valid', 'r_ready', 'w_valid', 'w_ready']}


def gen_case(rng, cid):
    rooted = rng.random() < 0.5
    # half of the traces also have signals outside every scope, named like signals inside the scopes
    text, info = gen.simple_trace(rng, n=rng.randrange(2, 8), scopes=dict(TREE, **{'': ['a', 'valid', 'p_a', 'p_b']}) if rooted else TREE)
    if rng.random() < 0.3 and info['n'] >= 3:
        # two samples with the same timestamp: still two indices, each with its own values
        k = rng.randrange(1, info['n'] - 1)
        old, new = '#%d\n' % info['ts'][k + 1], '#%d\n' % info['ts'][k]
        if text.count(old) == 1:
            text = text.replace(old, new)
    cmds = [['file', 't.vcd', text], ['load', 't.vcd', 'DEFAULT']]
    if rng.random() < 0.5:
        cmds.append(['evalstr', '111', '(length SIGNALS)'])      # the list of signals is read before anything is defined
    fr = gen.Frag(rng, {'DEFAULT': info})
    fr.allow_scoped = False      # ~/# inside a body are fixed to the scope captured at definition (covered below)
    defs = []       # (name, body text as readable from anywhere)
    for k in range(rng.randrange(1, 4)):
        body = fr.expr(rng.choice([1, 2, 2]))
        name = 'v%d' % k
        cmds.append(['evalstr', '111', f'(defsig {name} {body})'])
        defs.append((name, body))
        fr.vsigs.append(name)
    # layered: a virtual signal over another one
    base = rng.choice(defs)[0]
    cmds.append(['evalstr', '111', f'(defsig lay (* 2 {base}))'])
    defs.append(('lay', f'(* 2 {base})'))
    cmds.append(['evalstr', '111', f'(defsig layn (+ 1 (reval {base} 1)))'])
    defs.append(('layn', f'(+ 1 (reval {base} 1))'))
    # relative to captured scope / group, references fixed at definition
    cmds.append(['evalstr', '111', '(in-scope "top.u" (defsig sw (+ ~a ~q)))'])
    defs.append(('top.u.sw', '(+ top.u.a top.u.q)'))
    cmds.append(['evalstr', '111', '(in-group "top.u.r_" (defsig both (&& #valid #ready@1)))'])
    defs.append(('top.u.r_both', '(&& top.u.r_valid top.u.r_ready@1)'))
    cmds.append(['evalstr', '111', '(defun mk [] (defsig inc (+ (* 1 ~a) 1)))'])
    cmds.append(['evalstr', '111', '(in-scope "top" (mk))'])
    cmds.append(['evalstr', '111', '(in-scope "top.u" (mk))'])
    defs.append(('top.inc', '(+ (* 1 top.a) 1)'))
    defs.append(('top.u.inc', '(+ (* 1 top.u.a) 1)'))
    cmds.append(['evalstr', '111', "(in-groups '(\"top.u.r_\" \"top.u.w_\") (defsig hs (+ (* 2 #valid) #ready)))"])
    defs.append(('top.u.r_hs', '(+ (* 2 top.u.r_valid) top.u.r_ready)'))
    defs.append(('top.u.w_hs', '(+ (* 2 top.u.w_valid) top.u.w_ready)'))
    probes = []
    listed = '(list ' + ' '.join(f'(in "{n}" SIGNALS)' for n, _ in defs) + ')'
    cmds.append(['evalstr', '111', listed])
    probes.append(('listed', len(cmds) - 1, [n for n, _ in defs]))

    if rooted:
        # defined at top level with ~ and #: the references are fixed there (to the signals outside every scope), so the
        # signal reads the same from inside any scope or group
        cmds.append(['evalstr', '111', '(defsig rt (+ ~a 1))'])
        cmds.append(['evalstr', '111', '(defsig rg (+ #valid 2))'])
        defs.append(('rt', '(+ a 1)'))
        # a group outside every scope used while a scope is active: the signal is named relative to the group (p_gv),
        # not to the scope, and #gv finds it from the same group under any scope
        cmds.append(['evalstr', '111', '(in-scope "top" (in-group "p_" (defsig gv (+ #a (* 2 #b)))))'])
        defs.append(('p_gv', '(+ p_a (* 2 p_b))'))
        defs.append(('(in-group "p_" #gv)', '(+ p_a (* 2 p_b))'))
        defs.append(('(in-scope "top.u" (in-group "p_" #gv))', '(+ p_a (* 2 p_b))'))
        defs.append(('(in-scope "top" rt)', '(+ a 1)'))
        defs.append(('(in-scope "top.u" rt)', '(+ a 1)'))
        defs.append(('(in-group "top.u.r_" rg)', '(+ valid 2)'))
        defs.append(('(in-scope "top.u" (in-group "top.u.w_" (+ rt rg)))', '(+ (+ a 1) (+ valid 2))'))
    n = info['n']
    cur = [0]

    def goto(j):
        if j != cur[0]:
            cmds.append(['evalstr', '111', f'(step {j - cur[0]})'])
            cur[0] = j

    def probe_here(maxidx):
        sel = rng.sample(defs, min(len(defs), 4))
        k = rng.choice([-2, -1, 1, 2])
        parts = []
        for name, body in sel:
            parts += [name, body, f'(reval {name} {k})', f'(reval {body} {k})']
        cmds.append(['evalstr', '111', '(list ' + ' '.join(parts) + ')'])
        probes.append(('pairs', len(cmds) - 1, [x for nm, _ in sel for x in (nm, f'{nm}@{k}')], cur[0]))

    def visit(maxidx):
        order = rng.choice(['fwd', 'bwd', 'rand', 'rand'])
        idxs = list(range(maxidx + 1))
        if order == 'bwd':
            idxs.reverse()
        elif order == 'rand':
            idxs = [rng.randrange(maxidx + 1) for _ in range(maxidx + 3)]
        for j in idxs:
            goto(j)
            probe_here(maxidx)
            if rng.random() < 0.3:
                probe_here(maxidx)          # repeated read
        # scans over v vs over body
        name, body = rng.choice(defs)
        goto(rng.randrange(maxidx + 1))
        cmds.append(['evalstr', '111', f'(list (find {name}) (find {body}) (count (= {name} 1)) (count (= {body} 1)) '
                                       f'(whenever {name} INDEX) (whenever {body} INDEX) INDEX)'])
        probes.append(('scan', len(cmds) - 1, name, cur[0]))

    # a signal that is defined again with another body: from then on it behaves like the new body, whatever was read before
    rbody1 = fr.expr(2)
    cmds.append(['evalstr', '111', f'(defsig vr {rbody1})'])
    defs.append(('vr', rbody1))
    visit(n - 1)
    if rng.random() < 0.6:
        rbody2 = '(+ 1 %s)' % fr.expr(1)
        cmds.append(['evalstr', '111', f'(defsig vr {rbody2})'])
        defs[:] = [d for d in defs if d[0] != 'vr'] + [('vr', rbody2)]
        for j in range(n):
            goto(j)
            cmds.append(['evalstr', '111', f'(list vr {rbody2})'])
            probes.append(('pairs', len(cmds) - 1, ['vr after its redefinition'], cur[0]))
    # resample (sometimes) and visit again: cached values must not be served for other time points
    if n > 2:
        L = sorted(rng.sample(range(n), rng.randrange(2, n)))
        if rng.random() < 0.5:
            L = L + [L[0]]
        cmds.append(['evalstr', '111', "(sample-at '(%s))" % ' '.join(map(str, L))])
        cur[0] = 0
        m = len(dict.fromkeys(L)) - 1
        visit(m)
    return {'id': cid, 'cmds': cmds, 'probes': probes}


def oracle(case, impl):
    res = impl.get('results') or []
    for p in case['probes']:
        kind, pos = p[0], p[1]
        if len(res) <= pos:
            return f'session stopped at {res[-1:]} (command {len(res) - 1}: {case["cmds"][len(res) - 1][-1][:200]})'
        try:
            el = split_list(res[pos])
            if kind == 'listed':
                for nm, v in zip(p[2], el):
                    if v != 'B1':
                        return f'virtual signal {nm} is not listed in SIGNALS'
            elif kind == 'pairs':
                for k in range(0, len(el), 2):
                    if lib.canon(el[k]) != lib.canon(el[k + 1]):
                        return f'at index {p[3]}: {p[2][k // 2]} = {el[k]} but its body gives {el[k + 1]} ({case["cmds"][pos][2][:300]})'
            else:
                for k in (0, 2, 4):
                    if lib.canon(el[k]) != lib.canon(el[k + 1]):
                        return f'scan over {p[2]} from index {p[3]} gives {el[k]}, over its body {el[k + 1]}'
                if el[6] != 'I%d' % p[3]:
                    return f'index after scans {el[6]} expected {p[3]}'
        except (AssertionError, IndexError) as ex:
            return f'unparsable observation {ex!r}: {res[pos][:200]}'
    return None


def run(tier, seed, replay=None):
    rep = lib.Report(PID, tier, seed)
    build = lib.Build().run()
    rep.proof = lib.compile_props(PID)
    rng = lib.rng_for(seed, PID)
    n = 48 if tier == 'quick' else 12000
    cases = [gen_case(rng, c) for c in range(n)]
    results = lib.run_sessions(cases)
    lib.std_checks(rep, results, oracle)
    for c in cases:
        for p in c['probes']:
            rep.count(p[0])
            rep.nontrivial((c['id'], p[1]))
    rep.evaluations = sum(len(c['probes']) for c in cases)
    rep.samples = [c['cmds'][2][2] for c in cases[:4]]
    return lib.finish(rep, build, level='proof', rule=RULE, assumptions=[
        'single trace; distinct timestamps; bodies depend only on trace signals (read-only fragment)'])
