"""C14 — list/array library agrees with sequence and finite-map model; lists immutable."""
import lib
from corecalc import Sym

PID = 'C14'
RULE = ('(a) list operations (list first second last rest length in + append map fold zip range max min average sum slicing '
        'reverse filter partition sort) on lists of ints/strings/symbols/nested lists up to length 8 (all lists up to length 3 '
        'over a 4-value set in thorough), with predicate/function families, compared with Python sequence operations (oracle); '
        'every argument list is also bound to a second variable and compared with its original afterwards (immutability); '
        '(b) sequences of array operations (array seta dela geta in length mapa, up to 8) over keys mixing ints, strings, symbols '
        'and multi-part keys against an insertion-ordered dict with textual keys (oracle), geta of a missing key must raise. '
        'Every command also runs on the extracted Coq model. distinct = distinct (operation, arguments); non-trivial = all')


def lit(v):
    if isinstance(v, bool):
        return '#t' if v else '#f'
    if isinstance(v, int):
        return str(v)
    if isinstance(v, Sym):
        return str(v)
    if isinstance(v, str):
        return '"%s"' % v
    if isinstance(v, list):
        return '(' + ' '.join(lit(x) for x in v) + ')'
    raise TypeError(v)


def ser(v):
    if isinstance(v, Sym):
        return 'Y' + lib.hx(str(v))
    if isinstance(v, (list, tuple)):
        return '[ ' + ''.join(ser(x) + ' ' for x in v) + ']'
    return lib.ser_py(v)


def gen_elem(rng, kind):
    if kind == 'int':
        return rng.randrange(-3, 9)
    if kind == 'str':
        return rng.choice(['a', 'b', '', 'xy'])
    if kind == 'sym':
        return Sym(rng.choice(['p', 'q', 'r']))
    if kind == 'nest':
        return [rng.randrange(4) for _ in range(rng.randrange(0, 3))]
    return gen_elem(rng, rng.choice(['int', 'int', 'str', 'sym', 'nest']))


def gen_list(rng, kind=None, minlen=0):
    kind = kind or rng.choice(['int', 'int', 'mixed', 'str', 'nest'])
    return [gen_elem(rng, kind) for _ in range(rng.randrange(minlen, 9))]


def list_probe(rng):
    """-> (setup exprs, expression text, expected python value or 'ERR', list literals used)"""
    op = rng.choice(['first', 'second', 'last', 'rest', 'length', 'in', 'in2', 'plus', 'plus_elem', 'append', 'append_list', 'map_fn',
                     'map_op', 'fold_op', 'fold_fn', 'zip', 'range', 'max', 'min', 'average', 'sum', 'slice', 'slice1', 'reverse',
                     'filter', 'partition', 'sort', 'list', 'bracket_slice', 'maxstr', 'fold_list', 'filter_all', 'fold_count', 'fold_init_sym',
                     'map_op_sym', 'map_op_list', 'fold_op_list', 'partition_nested', 'filter_nested'])
    l = gen_list(rng)
    ints = gen_list(rng, 'int')
    q = "'" + lit(l)
    qi = "'" + lit(ints)
    if op == 'first':
        return f'(first {q})', (l[0] if l else 'ERR'), [l]
    if op == 'second':
        return f'(second {q})', (l[1] if len(l) > 1 else 'ERR'), [l]
    if op == 'last':
        return f'(last {q})', (l[-1] if l else 'ERR'), [l]
    if op == 'rest':
        return f'(rest {q})', l[1:], [l]
    if op == 'length':
        return f'(length {q})', len(l), [l]
    if op == 'in':
        x = rng.choice(l) if l and rng.random() < 0.6 else gen_elem(rng, 'mixed')
        return f"(in '{lit(x)} {q})", x in l and any(type(y) is type(x) and y == x for y in l), [l]
    if op == 'in2':
        x, y = rng.choice(ints or [1]), rng.randrange(-3, 9)
        return f'(in {x} {y} {qi})', (x in ints) and (y in ints), [ints]
    if op == 'plus':
        l2 = gen_list(rng)
        return f"(+ {q} '{lit(l2)})", l + l2, [l, l2]
    if op == 'plus_elem':
        x = rng.randrange(9)
        return f'(+ {q} {x})', l + [x], [l]
    if op == 'append':
        x = gen_elem(rng, rng.choice(['int', 'str']))
        return f'(append {q} {lit(x)})', l + [x], [l]
    if op == 'append_list':
        x = [rng.randrange(3) for _ in range(rng.randrange(0, 3))]
        return f"(append {q} '{lit(x)})", l + [x], [l]
    if op == 'map_fn':
        k = rng.randrange(1, 4)
        return f'(map (fn [x] (+ (* x {k}) 1)) {qi})', [x * k + 1 for x in ints], [ints]
    if op == 'map_op':
        nl = [gen_list(rng, 'int') for _ in range(rng.randrange(0, 4))]
        return f"(map length '{lit(nl)})", [len(x) for x in nl], [nl]
    if op == 'fold_op':
        o = rng.choice(['+', '*'])
        init = rng.randrange(0, 3)
        acc = init
        for x in ints:
            acc = acc + x if o == '+' else acc * x
        return f'(fold {o} {init} {qi})', acc, [ints]
    if op == 'fold_fn':
        acc = 0
        for x in ints:
            acc = acc * 2 - x
        return f'(fold (fn [acc x] (- (* acc 2) x)) 0 {qi})', acc, [ints]
    # fold and the functions built on it hand every element over as data: symbols (bound or not), strings, nested lists
    # ... also when the function is an operator given directly
    if op in ('map_op_sym', 'map_op_list', 'fold_op_list'):
        l = list(l)
        for _ in range(rng.randrange(1, 3)):
            l.insert(rng.randrange(len(l) + 1), Sym(rng.choice(['p', 'q', 'r'])))
        q = "'" + lit(l)
    if op == 'map_op_sym':
        return f"(map symbol? {q})", [isinstance(x, Sym) for x in l], [l]
    if op == 'map_op_list':
        return f"(map list {q})", [[x] for x in l], [l]
    if op == 'fold_op_list':
        acc = Sym('zz')
        for x in l:
            acc = [acc, x]
        return f"(fold list 'zz {q})", acc, [l]
    if op == 'fold_list':
        return f"(fold (fn [acc x] (+ acc (list x))) '() {q})", list(l), [l]
    if op == 'filter_all':
        return f'(filter (fn [x] #t) {q})', list(l), [l]
    if op == 'fold_count':
        return f'(fold (fn [acc x] (+ acc 1)) 0 {q})', len(l), [l]
    if op == 'fold_init_sym':
        return f"(fold (fn [acc x] acc) 'zz {q})", Sym('zz'), [l]
    if op == 'zip':
        l2 = gen_list(rng)
        return f"(zip {q} '{lit(l2)})", [[a, b] for a, b in zip(l, l2)], [l, l2]
    if op == 'range':
        a, b, s = rng.randrange(-2, 4), rng.randrange(-2, 9), rng.choice([1, 2, -1, 3, -2, -3])
        form = rng.choice([1, 2, 3])
        if form == 1:
            return f'(range {b})', list(range(b)), []
        if form == 2:
            return f'(range {a} {b})', list(range(a, b)), []
        return f'(range {a} {b} {s})', list(range(a, b, s)), []
    if op in ('max', 'min'):
        f = max if op == 'max' else min
        return f'({op} {qi})', (f(ints) if ints else 'ERR'), [ints]
    if op == 'maxstr':
        ss = gen_list(rng, 'str', 1)
        return f"(max '{lit(ss)})", max(ss), [ss]
    if op == 'average':
        return f'(average {qi})', (sum(ints) / len(ints) if ints else 'ERR'), [ints]
    if op == 'sum':
        return f'(sum {qi})', sum(ints), [ints]
    if op == 'slice':
        a, b = rng.randrange(-2, 9), rng.randrange(-2, 9)
        return f'(slice {q} {a} {b})', l[a:b], [l]
    if op == 'bracket_slice':
        a, b = rng.randrange(0, 5), rng.randrange(0, 9)
        return f'(do (define zl {q}) zl[{a}:{b}])', l[a:b], [l]
    if op == 'slice1':
        a = rng.randrange(-9, 9)
        return f'(slice {q} {a})', (l[a] if -len(l) <= a < len(l) else 'ERR'), [l]
    if op == 'reverse':
        return f'(reverse {q})', l[::-1], [l]
    if op == 'filter':
        k = rng.randrange(-1, 6)
        return f'(filter (fn [x] (> x {k})) {qi})', [x for x in ints if x > k], [ints]
    if op == 'partition':
        k = rng.randrange(-1, 6)
        return f'(partition (fn [x] (< x {k})) {qi})', [[x for x in ints if x < k], [x for x in ints if not x < k]], [ints]
    if op in ('partition_nested', 'filter_nested'):
        # elements that are lists themselves (the empty list included) stay single elements of their half (seed C14-j)
        nl = [gen_list(rng, 'int') for _ in range(rng.randrange(0, 6))]
        k = rng.randrange(0, 4)
        yes, no = [x for x in nl if len(x) > k], [x for x in nl if not len(x) > k]
        if op == 'filter_nested':
            return f"(filter (fn [x] (> (length x) {k})) '{lit(nl)})", yes, [nl]
        return f"(partition (fn [x] (> (length x) {k})) '{lit(nl)})", [yes, no], [nl]
    if op == 'sort':
        return f'(sort {qi})', sorted(ints), [ints]
    return '(list %s)' % ' '.join(lit(x) if not isinstance(x, (list, Sym)) else "'" + lit(x) for x in l), l, [l]


def immut_probe(rng):
    """bind a list to two names, run operations on one, compare both with the original literal"""
    ints = gen_list(rng, 'int', 1)
    q = "'" + lit(ints)
    src = rng.choice([q, '(list %s)' % ' '.join(map(str, ints)), f'(+ {q} (list))', '(map (fn [x] x) %s)' % q,
                      '(rest (+ (list 0) %s))' % q])
    ops = rng.sample(['(append l 7)', "(+ l '(1 2))", '(+ l 5)', '(reverse l)', '(sort l)', '(filter (fn [x] (> x 1)) l)',
                      '(rest l)', '(map (fn [x] (+ x 1)) l)', '(fold + 0 l)', '(zip l l)', '(slice l 0 2)', '(partition (fn [x] (> x 2)) l)',
                      '(sum l)', '(max l)', '(for/list [x l] (* x 2))', '(in 1 l)'], 4)
    txt = f'(do (define l {src}) (define l2 l) {" ".join(ops)} (list l l2))'
    return txt, [ints, ints]


KEYS = [('1', '1'), ('"1"', '1'), ("'k", 'k'), ('"k"', 'k'), ('2', '2'), ('"x-1"', 'x-1'), ("'a-b", 'a-b'), ('"a"', 'a'), ('0', '0')]


def array_case(rng, cid):
    cmds = [['evalstr', '111', '(define A (array))']]
    ref = {}
    checks = []
    if rng.random() < 0.5:
        init = rng.sample(KEYS, rng.randrange(1, 4))
        cmds[0] = ['evalstr', '111', '(define A (array %s))' % ' '.join('[%s %d]' % (k, i) for i, (k, _) in enumerate(init))]
        for i, (_, t) in enumerate(init):
            ref[t] = i
    for step in range(rng.randrange(1, 9)):
        op = rng.choice(['seta', 'seta', 'dela', 'geta', 'in', 'in2', 'length', 'mapa'])
        k, t = rng.choice(KEYS)
        if op == 'seta':
            v = rng.randrange(100)
            cmds.append(['try', ['evalstr', '111', f'(do (seta A {k} {v}) 0)']])
            ref[t] = v
            checks.append((len(cmds) - 1, 'ok I0', f'seta {k}'))
        elif op == 'dela':
            cmds.append(['try', ['evalstr', '111', f'(do (dela A {k}) 0)']])
            if t in ref:
                del ref[t]
                checks.append((len(cmds) - 1, 'ok I0', f'dela {k}'))
            else:
                checks.append((len(cmds) - 1, 'err', f'dela {k} (missing)'))
        elif op == 'geta':
            cmds.append(['try', ['evalstr', '111', f'(geta A {k})']])
            checks.append((len(cmds) - 1, ('ok I%d' % ref[t]) if t in ref else 'err', f'geta {k}'))
        elif op == 'in':
            cmds.append(['try', ['evalstr', '111', f'(in {k} A)']])
            checks.append((len(cmds) - 1, 'ok ' + lib.ser_py(t in ref), f'in {k}'))
        elif op == 'in2':
            k1, k2 = rng.choice([("'x", '1'), ("'a", "'b"), ('"a"', '"b"'), ('1', '2'), ("'k", '0')])
            t2 = k1.strip("'\"") + '-' + k2.strip("'\"")
            cmds.append(['try', ['evalstr', '111', f'(in {k1} {k2} A)']])
            checks.append((len(cmds) - 1, 'ok ' + lib.ser_py(t2 in ref), f'in {k1} {k2}'))
        elif op == 'length':
            cmds.append(['try', ['evalstr', '111', '(length A)']])
            checks.append((len(cmds) - 1, 'ok I%d' % len(ref), 'length'))
        else:
            cmds.append(['try', ['evalstr', '111', '(mapa (fn [k v] (list k v)) A)']])
            checks.append((len(cmds) - 1, 'ok ' + lib.ser_py([[a, b] for a, b in ref.items()]), 'mapa'))
    return {'id': cid, 'kind': 'array', 'cmds': cmds, 'checks': checks}


def all_small_lists():
    import itertools
    vals = [0, 2, 'a', Sym('p')]
    for n in range(0, 4):
        for t in itertools.product(vals, repeat=n):
            yield list(t)


def run(tier, seed, replay=None):
    rep = lib.Report(PID, tier, seed)
    build = lib.Build().run()
    rep.proof = lib.compile_props(PID)
    rng = lib.rng_for(seed, PID)
    n = 600 if tier == 'quick' else 60000
    cases = []
    for c in range(n):
        txt, want, lists = list_probe(rng)
        cases.append({'id': c, 'kind': 'list', 'cmds': [['evalstr', '111', txt]], 'text': txt,
                      'want': 'err' if want == 'ERR' else 'ok ' + ser(want)})
    for c in range(n // 3):
        txt, want = immut_probe(rng)
        cases.append({'id': len(cases), 'kind': 'immut', 'cmds': [['evalstr', '111', txt]], 'text': txt, 'want': 'ok ' + ser(want)})
    # membership of a list in a list of lists, whatever operation produced the lists (literal, list, zip, map, range, slice, rest)
    for txt, want in [("(in '(1 2) (zip '(1 5) '(2 6)))", True), ("(in (range 2) '((0 1) (2 3)))", True), ("(in (list 1 2) (list (list 1 2) 3))", True),
                      ("(in '(1 2) (map (fn [x] (list x 2)) '(1 3)))", True), ("(in (rest '(0 1 2)) (zip '(1) '(2)))", True),
                      ("(in '(1 3) (zip '(1 5) '(2 6)))", False), ("(in (zip '(1) '(2)) '(((1 2))))", True), ("(in '(2 3) (list (slice '(1 2 3) 1 3)))", True),
                      ("(in (map (fn [x] x) '(1 2)) '((1 2)))", True), ("(in '() (list (range 0)))", True)]:
        cases.append({'id': len(cases), 'kind': 'list', 'cmds': [['evalstr', '111', txt]], 'text': txt, 'want': 'ok ' + ser(want)})
    if tier == 'thorough':
        k = 0
        for l in all_small_lists():
            q = "'" + lit(l)
            for txt, want in [(f'(reverse {q})', l[::-1]), (f'(rest {q})', l[1:]), (f'(length {q})', len(l)), (f'(+ {q} {q})', l + l),
                              (f'(append {q} 5)', l + [5]), (f'(zip {q} {q})', [[x, x] for x in l]), (f'(slice {q} 1 3)', l[1:3]),
                              (f"(in 'p {q})", any(isinstance(x, Sym) for x in l)), (f'(in 2 {q})', 2 in l),
                              (f'(filter (fn [x] (= x 2)) {q})', [x for x in l if not isinstance(x, (str,)) and x == 2])]:
                cases.append({'id': len(cases), 'kind': 'list', 'cmds': [['evalstr', '111', txt]], 'text': txt, 'want': 'ok ' + ser(want)})
                k += 1
        rep.extra['exhaustive_lists_le3_over_4_values'] = k
    for c in range(n // 3):
        cases.append(array_case(rng, len(cases)))

    def oracle(case, impl):
        res = impl.get('results') or ['']
        if case['kind'] in ('list', 'immut'):
            if case['want'] == 'err':
                return None if res[0].startswith('err') else f'{case["text"]} must raise but yields {res[0]}'
            if lib.canon(res[0]) != lib.canon(case['want']):
                return f'{case["text"][:300]} = {res[0][:200]} expected {case["want"][:200]}'
            return None
        for pos, want, what in case['checks']:
            if len(res) <= pos:
                return f'array session stopped at {res[-1:]}'
            ok = res[pos].startswith('err') if want == 'err' else lib.canon(res[pos]) == lib.canon(want)
            if not ok:
                hist = [c[1][2] if c[0] == 'try' else c[2] for c in case['cmds'][:pos + 1]]
                return f'array history {hist}: {what} gives {res[pos][:200]} expected {want[:200]}'
        return None

    results = lib.run_sessions(cases)
    lib.std_checks(rep, results, oracle)
    for c in cases:
        rep.count(c['kind'])
        rep.nontrivial(c.get('text') or repr(c['cmds']))
    rep.evaluations = len(cases)
    rep.samples = [c.get('text') or c['cmds'][1][1][2] for c in cases[:3]] + [cases[-1]['cmds'][0][2]]
    return lib.finish(rep, build, level='proof', rule=RULE, assumptions=[
        'sort/max/min/sum/average on lists of integers (max also on strings); in on symbols compares names',
        'arrays are mutable shared maps by design; immutability is claimed for lists only'])
