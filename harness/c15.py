"""C15 — standard-library forms and user macros equal their defining equations."""
import lib
import gen

PID = 'C15'
RULE = ('each evaluation is one library form instance (when unless cond(0..4 clauses) for for/list dowhile until inc dec set! '
        'defun car cdr cadr rising falling stable unstable always step-until step-while set-index timeframe, user defmacro) '
        'with print-instrumented operands, run on a fresh interpreter and compared with its defining expression run on another '
        'fresh interpreter (result, printed output, final INDEX) (oracle); temporal forms at every start index of a generated '
        'trace, step-until/step-while/set-index/timeframe also against a reference computed from the trace data; hygiene: every '
        'symbol occurring inside a library macro definition is used as the name of a user variable read by the operands. '
        'Library runs are also compared with the extracted Coq model (Generated.v = std.wal of the current tree). '
        'distinct = distinct instance texts; non-trivial = all')

TREE = {'top': ['clk', 'a', 'b']}
KNOWN = [
    ('(cond)', 'cond with zero clauses raises IndexError (the expansion is the empty list) instead of yielding nothing'),
]


def P(tag, e):
    return f'(do (print "{tag}") {e})'


def gen_pairs(rng, info, user_var=None):
    """-> list of (kind, setup, library form, defining expression)"""
    v = user_var or 'uv'
    n = info['n']
    cnd = lambda: rng.choice(['0', '1', '#t', '#f', f'(> {v} 2)', f'(< {v} 9)', 'top.clk', '(= top.clk 1)', '(> top.a 100)', "'()", "'(1)", '""', "(rest '(1))"])  # noqa: E731
    val = lambda: rng.choice(['1', f'{v}', f'(+ {v} 1)', 'top.a', 'INDEX', '"s"'])  # noqa: E731
    out = []
    c = P('c', cnd())
    b1, b2 = P('b1', val()), P('b2', val())
    out.append(('when', f'(when {c} {b1} {b2})', f'(if {c} (do {b1} {b2}))'))
    out.append(('unless', f'(unless {c} {b1} {b2})', f'(if (! {c}) (do {b1} {b2}))'))
    k = rng.randrange(1, 5)
    clauses = [(P('c%d' % i, cnd()), P('a%d' % i, val())) for i in range(k)]
    has_else = rng.random() < 0.5
    lib_c = '(cond ' + ' '.join(f'[{c0} {a0}]' for c0, a0 in clauses) + (f' [else {P("e", val())}]' if has_else else '') + ')'
    d = P('e', val()) if False else None
    els = lib_c[lib_c.index('[else ') + 6:-2] if has_else else None
    d = els
    for c0, a0 in reversed(clauses):
        d = f'(if {c0} (do {a0}) {d})' if d is not None else f'(if {c0} (do {a0}))'
    out.append(('cond', lib_c, d))
    lst = rng.choice(["'(1 2 3)", "'()", "(list 4 5)", "(range 3)"])
    body = f'(do (print x " " {v}) (+ x {v}))'      # the user variable is printed: a capture by the template shows in the output
    out.append(('for/list', f'(for/list [x {lst}] {body})', f'(map (fn [x] (do {body})) {lst})'))
    out.append(('for', f'(for [x {lst}] {body} (* x 2))',
                f"(let ([t__ (map (fn [x] (do {body} (* x 2))) {lst})]) (if t__ (last t__) '()))"))
    out.append(('dowhile', f'(do (define i 0) (dowhile (print i) (inc i) (< i {rng.randrange(4)})))',
                f'(do (define i 0) (do (print i) (inc i) (while (< i {rng.randrange(1)}) (print i) (inc i))))'))
    lim = rng.randrange(4)
    out[-1] = ('dowhile', f'(do (define i 0) (dowhile (print i) (inc i) (< i {lim})))',
               f'(do (define i 0) (do (print i) (inc i) (while (< i {lim}) (print i) (inc i))))')
    out.append(('until', f'(do (define i 0) (until (> i {lim}) (print i) (inc i)))',
                f'(do (define i 0) (while (! (> i {lim})) (print i) (inc i)))'))
    out.append(('inc', f'(do (define i 3) (define j 5) (inc i j) (list i j {v}))', f'(do (define i 3) (define j 5) (set [i (+ i 1)] [j (+ j 1)]) (list i j {v}))'))
    out.append(('dec', f'(do (define i 3) (define j 5) (dec i j) (list i j {v}))',
                f"(do (define i 3) (define j 5) (set [i (if (defined? 'i) (- i 1) -1)] [j (if (defined? 'j) (- j 1) -1)]) (list i j {v}))"))
    out.append(('set!', f'(do (define i 3) (set! i {P("v", val())}) i)', f'(do (define i 3) (set [i {P("v", val())}]) i)'))
    sv = P('v', val())
    out[-1] = ('set!', f'(do (define i 3) (set! i {sv}) i)', f'(do (define i 3) (set [i {sv}]) i)')
    out.append(('defun', f'(do (defun fq [p q] (print p) (+ p q {v})) (fq 1 2))', f'(do (define fq (fn [p q] (print p) (+ p q {v}))) (fq 1 2))'))
    l3 = rng.choice(["'(1 2 3)", "'((1) 2)", "(list 7 8)"])
    out.append(('car', f'(car {P("l", l3)})', f'(first {P("l", l3)})'))
    out.append(('cdr', f'(cdr {P("l", l3)})', f'(rest {P("l", l3)})'))
    out.append(('cadr', f'(cadr {P("l", l3)})', f'(first (rest {P("l", l3)}))'))
    e = rng.choice(['top.clk', '(slice top.a 0)', '(= top.b 3)', f'(> {v} top.a)', 'top.clk@1', '(reval (slice top.a 0) 1)', 'top.clk@-1'])
    out.append(('rising', f'(rising {e})', f'(&& (= {e} 0) (= (reval {e} 1) 1))'))
    out.append(('falling', f'(falling {e})', f'(&& (= {e} 1) (= (reval {e} 1) 0))'))
    out.append(('stable', f'(stable {e})', f'(= {e} (reval {e} 1))'))
    out.append(('unstable', f'(unstable {e})', f'(!= {e} (reval {e} 1))'))
    out.append(('always', f'(always (print INDEX) (+ INDEX {v}))', f'(whenever #t (print INDEX) (+ INDEX {v}))'))
    tb = rng.choice(['(step 2)', '(do (step 1) top.a)', f'(+ {v} INDEX)', '(do (step-until (= top.clk 1)) INDEX)'])
    out.append(('timeframe', f'(list (timeframe {tb} (list INDEX top.a)) INDEX)',
                f'(let ([i0__ INDEX] [r__ (do {tb} (list INDEX top.a))]) (step (- i0__ INDEX)) (list r__ INDEX))'))
    # append for every kind of first operand: a list, a string, a number (+ is overloaded on all of them)
    xs_ = rng.choice(["'(1 2)", '"abc"', '4', "'()", "'((1) 2)"])
    x_ = rng.choice(['3', '"d"', "'(5 6)", "'()"])
    out.append(('append', f'(append {xs_} {x_})', f'(+ {xs_} (let ([t__ {x_}]) (if (list? t__) (list t__) t__)))'))
    # user macro: arguments unevaluated, expanded before evaluation, call = evaluation of macroexpand
    out.append(('defmacro', f'(do (defmacro m2 [x y] `(list ,y ,x ,y)) 0)', '(+ 0 0)'))
    return out


def user_macro_pairs(rng, v='uv'):
    a, b = P('a', rng.choice(['1', v, '(+ 1 2)'])), P('b', rng.choice(['2', '"s"']))
    defs = rng.choice([
        "(defmacro m2 [x y] `(list ,y ,x ,y))",
        "(defmacro m2 [x y] `(if ,x ,y 0))",
        "(defmacro m2 args `(do ,@args))",
        "(defmacro m2 [x y] (let ([t (gensym)]) `(let ([,t ,x]) (list ,t ,t ,y))))",
    ])
    return [('user-macro-depths', ['(define hits 0)', '(defmacro hit! [] `(set [hits (+ hits 1)]))', '(defun probe [n] (hit!) n)', '(probe 7)', '(hit!)'],
             '(do (probe 7) hits)', '(+ 3 0)'),
            ('user-macro-depths', ['(define hits 0)', '(defmacro hit! [] `(set [hits (+ hits 1)]))', '(defun probe [n] (hit!) n)',
                                   '(let ([q 1]) (let ([r 2]) (hit!)))', '(probe 7)'],
             '(do (probe 7) hits)', '(+ 3 0)'),
            ('user-macro-renamed', [defs, '(define m3 m2)'], f'(m3 {a} {b})', f"(eval (macroexpand '(m2 {a} {b})))"),
            ('user-macro', [defs], f'(m2 {a} {b})', f"(eval (macroexpand '(m2 {a} {b})))"),
            ('user-macro-unevaluated', [defs], f"(do (macroexpand '(m2 {a} {b})) 0)", '(+ 0 0)')]


def template_symbols():
    """every symbol that occurs inside a library macro definition (from the repository's std.wal)"""
    import subprocess
    code = ('import json;from wal.reader import read_wal_sexprs;from wal.ast_defs import Symbol,WList,Operator,Unquote,UnquoteSplice\n'
            'def walk(e,acc):\n'
            '    if isinstance(e,Symbol): acc.add(e.name)\n'
            '    elif isinstance(e,(list,WList)):\n'
            '        for x in e: walk(x,acc)\n'
            '    elif isinstance(e,(Unquote,UnquoteSplice)): walk(e.content,acc)\n'
            'acc=set()\n'
            'for f in read_wal_sexprs(open("%s/wal/libs/std/std.wal").read()):\n'
            '    if isinstance(f,WList) and f and f[0]==Operator.DEFMACRO: walk(f[2:],acc)\n'
            'print(json.dumps(sorted(acc)))\n' % lib.REPO)
    rc, out = lib.sh(f"PYTHONPATH={lib.REPO} {lib.PY} -c '{code}'")
    import json
    import re
    syms = json.loads(out.strip().splitlines()[-1])
    return [s for s in syms if re.match(r'^[A-Za-z][A-Za-z0-9_-]*$', s) and s not in ('else', 'INDEX', 'ALL-INDICES', 't', 'f')]


def run(tier, seed, replay=None):
    rep = lib.Report(PID, tier, seed)
    build = lib.Build().run()
    rep.proof = lib.compile_props(PID)
    rng = lib.rng_for(seed, PID)
    syms = template_symbols()
    rep.extra['template_symbols'] = syms
    rounds = 3 if tier == 'quick' else 240
    cases = []
    pairs = []

    def add(kind, setup, L, D, start, vcd, uv):
        base = [['file', 't.vcd', vcd], ['load', 't.vcd', 'DEFAULT'], ['evalstr', '111', f'(define {uv} 7)'],
                ['evalstr', '111', f'(step {start})']] + [['evalstr', '111', s] for s in setup]
        ia = len(cases)
        cases.append({'id': ia, 'cmds': base + [['evalstr', '111', L], ['evalstr', '111', 'INDEX']], 'text': L, 'kind': kind, 'role': 'lib', 'pos': len(base)})
        cases.append({'id': ia + 1, 'cmds': base + [['evalstr', '111', D], ['evalstr', '111', 'INDEX']], 'text': D, 'kind': kind, 'role': 'def', 'pos': len(base)})
        pairs.append((ia, ia + 1, kind, L, D, start, uv))

    for r in range(rounds):
        vcd, info = gen.simple_trace(rng, n=rng.randrange(2, 7), scopes=TREE)
        for start in range(info['n']):
            for kind, L, D in gen_pairs(rng, info):
                if kind in ('rising', 'falling', 'stable', 'unstable', 'always', 'timeframe') or start == 0 or rng.random() < 0.3:
                    add(kind, [], L, D, start, vcd, 'uv')
            for kind, setup, L, D in user_macro_pairs(rng):
                add(kind, setup, L, D, start, vcd, 'uv')
        # edge predicates with operands that themselves look ahead/back, at every index
        for start in range(info['n']):
            for e in ('top.clk@1', 'top.clk@-1', '(slice top.a 0)@2'):
                add('rising', [], f'(rising {e})', f'(&& (= {e} 0) (= (reval {e} 1) 1))', start, vcd, 'uv')
                add('stable', [], f'(list (stable {e}) (unstable {e}) (falling {e}))',
                    f'(list (= {e} (reval {e} 1)) (!= {e} (reval {e} 1)) (&& (= {e} 1) (= (reval {e} 1) 0)))', start, vcd, 'uv')
        # edge predicates over INDEX, TS and a virtual signal (operands that are no plain waveform signals)
        for start in range(info['n']):
            add('stable', [], '(list (stable INDEX) (unstable TS))', '(list (= 1 2) (= 1 1))', start, vcd, 'uv')
            add('rising', ['(defsig vinv (- 1 top.clk))'], '(list (rising vinv) (falling vinv) (stable vinv) (unstable vinv))',
                '(list (&& (= (- 1 top.clk) 0) (= (reval (- 1 top.clk) 1) 1)) (&& (= (- 1 top.clk) 1) (= (reval (- 1 top.clk) 1) 0)) '
                '(= (- 1 top.clk) (reval (- 1 top.clk) 1)) (!= (- 1 top.clk) (reval (- 1 top.clk) 1)))', start, vcd, 'uv')
        # cond/when/unless against conditions of known truth (absolute reference, independent of the passes)
        TRUTH = [('0', False), ('1', True), ('#t', True), ('#f', False), ("'()", False), ("'(1)", True), ('""', False), ('"a"', True),
                 ("(rest '(1))", False), ('(+ 1 1)', True), ('(- 1 1)', False), ("'0", False), ("'a", True)]
        for _ in range(30):
            k = rng.randrange(1, 5)
            cl = [rng.choice(TRUTH) for _ in range(k)]
            has_else = rng.random() < 0.5
            txt = '(cond ' + ' '.join(f'[(do (print "c{i}") {c}) (print "a{i}") {i + 10}]' for i, (c, _) in enumerate(cl)) + \
                  (' [else (print "e") 99]' if has_else else '') + ')'
            out = ''
            resv = None
            for i, (c, t) in enumerate(cl):
                out += f'c{i}\n'
                if t:
                    out += f'a{i}\n'
                    resv = i + 10
                    break
            else:
                if has_else:
                    out += 'e\n'
                    resv = 99
            ref = '(do ' + ' '.join(f'(print "{ln}")' for ln in out.split('\n') if ln) + (f' (+ {resv} 0))' if resv is not None else ' (if 0 0))')
            add('cond-abs', [], txt, ref, 0, vcd, 'uv')
            c, t = rng.choice(TRUTH)
            add('when-abs', [], f'(when {c} (print "b") 5)', '(do (print "b") 5)' if t else '(if 0 0)', 0, vcd, 'uv')
        # temporal forms against the trace data
        clk = info['signals']['top.clk']
        for start in range(info['n']):
            tgt = next((j for j in range(start, info['n']) if clk[j] == 1), info['n'] - 1)
            add('step-until', [], '(do (step-until (= top.clk 1)) INDEX)', f'(do (step {tgt - start}) (+ {tgt} 0))', start, vcd, 'uv')
            tgt2 = next((j for j in range(start, info['n']) if clk[j] != 1), info['n'] - 1)
            add('step-while', [], '(do (step-while (= top.clk 1)) INDEX)', f'(do (step {tgt2 - start}) (+ {tgt2} 0))', start, vcd, 'uv')
            i = rng.randrange(-1, info['n'] + 1)
            inr = 0 <= i <= info['n'] - 1
            add('set-index', [], f'(list (set-index {i}) INDEX)', f"(do (step {(i - start) if inr else 0}) (list {'#t' if inr else '#f'} {i if inr else start}))", start, vcd, 'uv')
    # hygiene: every template symbol as the user's variable name
    vcd, info = gen.simple_trace(rng, n=4, scopes=TREE)
    hyg = syms          # all of them in both tiers: a capture shows only for the one name a template binds
    for s in hyg:
        for kind, L, D in gen_pairs(rng, info, user_var=s):
            if kind in ('when', 'unless', 'cond', 'for', 'for/list', 'inc', 'dec', 'defun', 'rising', 'always', 'timeframe', 'set!'):
                add('hygiene:' + kind, [], L, D, 1, vcd, s)
        pl = f"(partition (fn [v] (> v {s})) '(1 20 5 30))"
        add('hygiene:partition', [], pl, "'((20 30) (1 5))", 0, vcd, s)
        ap = f"(append (list {s}) {s})"
        add('hygiene:append', [], ap, '(list 7 7)', 0, vcd, s)
    results = lib.run_sessions(cases)
    for case, impl, mout, cmp in results:
        rep.evaluations += 1
        r_ = lib.recheck_crash(rep, case, impl, mout, cmp)
        if r_ is None:
            continue
        case, impl, mout, cmp = r_
        if case['role'] != 'lib':
            continue
        if cmp is None:
            pass
        elif cmp.startswith('skip:'):
            rep.skip(cmp[5:])
        else:
            rep.mismatches.append({'case': case, 'impl': impl, 'model': mout, 'diff': cmp})
    known = []
    for ia, ib, kind, L, D, start, uv in pairs:
        a, b = results[ia][1], results[ib][1]
        pa = cases[ia]['pos']
        ra, rb = (a.get('results') or []), (b.get('results') or [])
        oa = ([lib.canon(lib.strip_err_out(x)) for x in ra[pa:pa + 2]], lib.final_fields(a.get('final', '')).get('out'))
        ob = ([lib.canon(lib.strip_err_out(x)) for x in rb[pa:pa + 2]], lib.final_fields(b.get('final', '')).get('out'))
        if len(rb) <= pa or not rb[pa].startswith('ok'):
            continue            # the defining expression itself fails (e.g. ! on a non-integer): nothing to compare
        if kind.split(':')[-1] not in ('step-until', 'step-while', 'set-index') and len(ra) > pa + 1 and ra[pa].startswith('ok') \
                and ra[pa + 1] != 'ok I%d' % start:
            rep.oracle_failures.append({'case': {'lib': L, 'start': start}, 'why':
                                        f'{kind}: {L[:300]} evaluated at index {start} leaves INDEX {ra[pa + 1]} (must be position-neutral)'})
        if oa != ob:
            rep.oracle_failures.append({'case': {'lib': L, 'def': D, 'start': start, 'user_var': uv}, 'why':
                                        f'{kind} at index {start} (user variable {uv}): {L[:300]} gives {ra[pa:pa + 2]} '
                                        f'out={lib.final_fields(a.get("final", "")).get("out_text")!r}; defining expression {D[:300]} gives '
                                        f'{rb[pa:pa + 2]} out={lib.final_fields(b.get("final", "")).get("out_text")!r}'})
        rep.count(kind.split(':')[0])
        rep.nontrivial(L)
    # known finding: (cond) with zero clauses
    kf = lib.run_sessions([{'id': 0, 'cmds': [['evalstr', '111', '(cond)']]}])
    r0 = (kf[0][1].get('results') or [''])[0]
    if r0.startswith('err'):
        known.append(KNOWN[0])
    rep.extra['known_probe'] = r0
    for kk in lib.load_known():
        if kk.get('property') == PID and kk.get('status') == 'open' and kk.get('input') == '(cond)' and r0.startswith('err'):
            rep.known_hits.append(kk['what'])
    if r0.startswith('err') and not rep.known_hits:
        rep.oracle_failures.append({'case': {'lib': '(cond)'}, 'why': '(cond) with zero clauses raises ' + r0})
    rep.samples = [p[3][:200] for p in pairs[:4]]
    return lib.finish(rep, build, level='proof', rule=RULE, assumptions=[
        'macro known at expansion time (defined in an earlier top-level form); single trace for the temporal forms',
        'when the defining expression itself raises (e.g. ! applied to a non-integer), nothing is compared'])
