"""C16 — API, source file, -c and compiled .wo runs agree; passes are idempotent."""
import concurrent.futures
import json
import os
import shutil
import subprocess
import lib
import gen

PID = 'C16'
RULE = ('each evaluation is one generated multi-form program (core, list, macro incl. user defmacro used in later forms, trace '
        'fragments; with and without a trace given by -l; some ending in (exit n) or in an evaluation error) run five ways: '
        'forms through Wal.eval in process, Wal.run_file, `wal prog.wal`, `wal -c SRC`, `walc` + `wal prog.wo`; printed output '
        '(up to an error banner), exit status and final positions (printed by the last form) must agree (oracle); in process the '
        'passes are applied once and twice to every form and both versions evaluated on copies of the interpreter (idempotence). '
        'The API run is also compared with the extracted Coq model. distinct = distinct program texts; non-trivial = program '
        'defines and later uses a macro or a function')

API_SCRIPT = r'''
import sys, io, contextlib
from wal.core import Wal
from wal.reader import read_wal_sexprs
from wal.ast_defs import WalEvalError
mode, src, trace = sys.argv[1], open(sys.argv[2]).read(), (sys.argv[3] if len(sys.argv) > 3 else None)
w = Wal()
if trace:
    w.load(trace, 't0')
try:
    if mode == 'api':
        for f in read_wal_sexprs(src):
            w.eval(f)
    else:
        w.run_file(sys.argv[2])
except WalEvalError:
    sys.exit(70)
'''

POOL_CORE = [
    '(define x {n})', '(define y (+ x {n}))', '(defun f [a] (* a {n}))', '(print (f {n}))', '(print x " " y)',
    "(define l '(1 2 3))", '(print (map (fn [e] (+ e x)) l))', '(print (fold + 0 l))', '(set [x (+ x 1)])',
    '(let ([q {n}]) (print (+ q x)))', '(print (if (> x {n}) "big" "small"))', '(print (for/list [i (range 3)] (* i x)))',
    '(defun g [a b] (if (> a b) a b))', '(print (g x {n}))', '(print (reverse l))', "(print (case {n} [1 'one] [2 'two] [default 'many]))",
    '(print "s" {n} #t)', '(when (> x 0) (print "pos"))', '(inc x)', '(print (sum l))',
    # quasiquote evaluated at run time, with unquote and splice
    "(print `(1 ,@(list 2 x) {n}))", "(print `(a ,x ,@'(b c)))", "(print (eval `(+ ,x ,@(list {n} 1))))",
]
POOL_MACRO = [
    ('(defmacro twice [e] `(do ,e ,e))', '(twice (print "t{n}"))'),
    ('(defmacro sq [e] (let ([t (gensym)]) `(let ([,t ,e]) (* ,t ,t))))', '(print (sq (+ x {n})))'),
    ('(defmacro unless2 [c a] `(if (! ,c) ,a))', '(unless2 (> x 100) (print "small{n}"))'),
    ('(defmacro swap [a b] `(let ([tmp ,a]) (set [,a ,b]) (set [,b tmp])))', '(swap x y)'),
    ('(defmacro addto [v e] `(set [,v (+ ,v ,e)]))', '(let ([acc 0]) (for [i (range 4)] (addto acc i)) (print acc))'),
    # expansion is directly another macro call (re-expansion needed)
    ('(defmacro unless3 [c a] `(unless ,c ,a))', '(unless3 (> x 100) (print "u{n}"))'),
    ('(defmacro my-when [c a] `(when ,c (twice ,a)))', '(my-when (< x 100) (print "w{n}"))'),
    ('(defmacro second-of [l] `(cadr ,l))', "(print (second-of '(1 {n} 3)))"),
    # the macro wraps its operand in a new scope; the operand assigns to an enclosing variable
    ('(defmacro scoped [e] `(let ([tmp__ 1]) ,e))', '(let ([acc 0]) (scoped (set [acc (+ acc {n})])) (print acc))'),
    ('(defmacro in-fn [e] `((fn [] ,e)))', '(do (in-fn (set [x (+ x {n})])) (print x))'),
    # expansion has an effect / reads an earlier definition: it must happen when the program runs, on every path
    ('(defmacro traced [e] (print "expanding") e)', '(traced (print "body{n}"))'),
    ('(defmacro plusx [e] (list (quote +) e x))', '(print (plusx {n}))'),
    # templates with a splice: the compiled file still contains ,@ when the macro is used in a later form
    ('(defmacro mylist args `(list ,@args))', '(print (mylist 1 {n} x))'),
    ('(defmacro all-of args `(&& ,@args #t))', '(print (all-of (> x 0) (< x 100) {n}))'),
    ('(defmacro prog2 [a b] `(do ,@(list a b) (print "done{n}")))', '(prog2 (print "p") (print x))'),
]
POOL_TRACE = [
    '(print INDEX " " TS)', '(step {k})', '(print top.a)', '(print (find (= top.clk 1)))', '(print (count top.clk))',
    '(print top.a@1)', '(whenever (= top.clk 1) (print INDEX))', '(print (in-scope "top" ~b))', '(step-until (= top.clk 1))',
    '(print (timeframe (step 1) INDEX) " " INDEX)', '(defsig v (+ top.a 1))', '(print v)', '(print (rising top.clk))',
]


# always-run programs: every user macro of the pool defined and used in later forms (all four paths), run-time quasiquotes
ALWAYS = [
    [d for d, _ in POOL_MACRO[:5]] + [u.replace('{n}', '3') for _, u in POOL_MACRO[:5]] + ['(print x " " y)'],
    [POOL_MACRO[0][0]] + [d for d, _ in POOL_MACRO[5:10]] + [u.replace('{n}', '4') for _, u in POOL_MACRO[5:10]],
    [d for d, _ in POOL_MACRO[10:]] + ['(set [x (+ x 10)])'] + [u.replace('{n}', '5') for _, u in POOL_MACRO[10:]] +
    ["(print `(1 ,@(list 2 x) 7))", "(print `(a ,x ,@'(b c)))", "(print (eval `(+ ,x ,@(list 2 1))))"],
]


def gen_program(rng, with_trace):
    forms = ['(define x 1)', '(define y 2)']
    used_macro = False
    for _ in range(rng.randrange(2, 9)):
        r = rng.random()
        if r < 0.25:
            d, u = rng.choice(POOL_MACRO)
            n = str(rng.randrange(9))
            if d not in forms:
                forms.append(d)
            if 'my-when' in d and POOL_MACRO[0][0] not in forms:
                forms.append(POOL_MACRO[0][0])
            forms.append(u.replace('{n}', n))
            if 'swap' in d:
                forms.append('(print x " " y)')
            used_macro = True
        elif r < 0.55 and with_trace:
            t = rng.choice(POOL_TRACE).replace('{k}', str(rng.choice([1, 1, 2, -1])))
            if t == '(print v)' and '(defsig v (+ top.a 1))' not in forms:
                continue
            if t.startswith('(defsig') and t in forms:
                continue
            forms.append(t.replace('top.', 't0^top.') if False else t)
        else:
            t = rng.choice(POOL_CORE).replace('{n}', str(rng.randrange(1, 6)))
            if t.startswith(('(define', '(defun')) and t.split()[1] in [f.split()[1] for f in forms if f.startswith(('(define', '(defun'))]:
                continue
            need = {'f': '(defun f', 'g': '(defun g', 'l': '(define l', 'y': '(define y'}
            ok = True
            for nm, d in need.items():
                if ('(%s ' % nm in t or ' %s)' % nm in t or ' %s ' % nm in t) and not any(f.startswith(d) for f in forms):
                    ok = False
            if ok:
                forms.append(t)
    end = rng.random()
    if with_trace:
        forms.append('(print "pos " INDEX)')
    if end < 0.15:
        forms.append('(exit %d)' % rng.choice([0, 3, 7]))
    elif end < 0.25:
        forms.append('(print (undefined-function 1))')
        forms.append('(print "not reached")')
    return forms, used_macro


def run_path(args, cwd, env):
    try:
        p = subprocess.run(args, cwd=cwd, env=env, stdin=subprocess.DEVNULL, stdout=subprocess.PIPE, stderr=subprocess.PIPE,
                           timeout=60, text=True, errors='replace')
        out = p.stdout
        cut = out.find('\n>>>>>')
        return p.returncode, (out[:cut] if cut >= 0 else out)
    except subprocess.TimeoutExpired:
        return 'timeout', ''


def run_program(job):
    k, forms, vcd, root = job
    d = os.path.join(root, 'p%d' % k)
    os.makedirs(d, exist_ok=True)
    src = '\n'.join(forms) + '\n'
    with open(os.path.join(d, 'prog.wal'), 'w') as f:
        f.write(src)
    with open(os.path.join(d, 'api.py'), 'w') as f:
        f.write(API_SCRIPT)
    targs = []
    if vcd:
        with open(os.path.join(d, 't.vcd'), 'w') as f:
            f.write(vcd)
        targs = ['-l', 't.vcd']
    env = dict(os.environ, PYTHONPATH=lib.REPO, PYTHONHASHSEED='0', PYTHONDONTWRITEBYTECODE='1')
    py = lib.PY
    res = {}
    res['api'] = run_path([py, 'api.py', 'api', 'prog.wal'] + (['t.vcd'] if vcd else []), d, env)
    res['run_file'] = run_path([py, 'api.py', 'run_file', 'prog.wal'] + (['t.vcd'] if vcd else []), d, env)
    res['file'] = run_path([py, '-m', 'wal', 'prog.wal'] + targs, d, env)
    res['-c'] = run_path([py, '-m', 'wal'] + targs + ['-c', src], d, env)
    rc, _ = run_path([py, '-m', 'walc', 'prog.wal'], d, env)
    if rc == 0 and os.path.exists(os.path.join(d, 'prog.wo')):
        res['wo'] = run_path([py, '-m', 'wal', 'prog.wo'] + targs, d, env)
    else:
        res['wo'] = ('walc failed %s' % rc, '')
    shutil.rmtree(d, ignore_errors=True)
    return k, res


def run(tier, seed, replay=None):
    rep = lib.Report(PID, tier, seed)
    build = lib.Build().run()
    rep.proof = lib.compile_props(PID)
    rng = lib.rng_for(seed, PID)
    n = 48 if tier == 'quick' else 1200
    root = os.path.join(lib.VERIF, '.run', 'c16-%d' % os.getpid())
    os.makedirs(root, exist_ok=True)
    jobs = []
    progs = []
    for k in range(n):
        with_trace = k % 2 == 0
        vcd = None
        if with_trace:
            vcd, info = gen.simple_trace(rng, n=rng.randrange(3, 8), scopes={'top': ['clk', 'a', 'b']})
        forms, used = gen_program(rng, with_trace)
        if k < len(ALWAYS):
            forms, used = ['(define x 1)', '(define y 2)'] + ALWAYS[k] + (['(print "pos " INDEX)'] if with_trace else []), True
        progs.append((forms, used, vcd))
        jobs.append((k, forms, vcd, root))
    with concurrent.futures.ThreadPoolExecutor(max_workers=lib.NPROC) as ex:
        outs = dict(ex.map(run_program, jobs))
    shutil.rmtree(root, ignore_errors=True)
    for k, (forms, used, vcd) in enumerate(progs):
        res = outs[k]
        rep.evaluations += 1
        ref = res['file']
        for path in ('api', 'run_file', '-c', 'wo'):
            if res[path] != ref:
                rep.oracle_failures.append({'case': {'forms': forms, 'trace': bool(vcd)}, 'why':
                                            f'path {path}: exit={res[path][0]} out={res[path][1][-300:]!r}; `wal prog.wal`: exit={ref[0]} '
                                            f'out={ref[1][-300:]!r}; program {forms}'})
                break
        if used or any(f.startswith('(defun') for f in forms):
            rep.nontrivial(forms)
        rep.count('trace' if vcd else 'notrace')
        rep.count('exit=%s' % ref[0])
    # in-process: API forms vs model, and idempotence of the passes
    cases = []
    for k, (forms, used, vcd) in enumerate(progs):
        if any(f.startswith('(exit') for f in forms):
            forms = [f for f in forms if not f.startswith('(exit')]
        setup = [['file', 't.vcd', vcd], ['load', 't.vcd', 't0']] if vcd else []
        cases.append({'id': k, 'cmds': setup + [['try', ['evalstr', '111', f]] for f in forms], 'forms': forms, 'kind': 'api-model'})
        cases.append({'id': k, 'cmds': setup + [['idem', forms]], 'forms': forms, 'kind': 'idem', 'pos': len(setup)})
    for i, c in enumerate(cases):
        c['id'] = i

    def oracle(case, impl):
        if case['kind'] != 'idem':
            return None
        res = impl.get('results') or []
        if len(res) <= case['pos']:
            return None
        if res[case['pos']] != 'ok same':
            return f'passes applied twice differ from once: {res[case["pos"]][:400]} for {case["forms"]}'
        return None

    results = lib.run_sessions(cases)
    lib.std_checks(rep, results, oracle)
    rep.evaluations = len(progs)
    rep.samples = [p[0] for p in progs[:3]]
    return lib.finish(rep, build, level='proof', rule=RULE, assumptions=[
        'PARTIAL: process start-up, argparse, file I/O, pickle and exit-status mapping live in the runtime and are only reached by the '
        'subprocess comparison, not by the Coq model',
        'programs that fail do so with an evaluation error (WalEvalError); other Python exceptions map to different exit codes on the '
        '-c path and are not generated'])
