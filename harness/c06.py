"""C06 — core evaluator: lexical scoping, closures, left-to-right single evaluation."""
import lib
import corecalc as cc

PID = 'C06'
RULE = ('each evaluation is one closed program of the core calculus (define/let/fn fixed+variadic/calls/set/if/case/while/do/'
        'quote/quasiquote/eval/print; recursion, higher-order functions, counters shared between closures), run through '
        'Wal.eval (full pipeline) and through the bare evaluator, compared with an independent reference interpreter with '
        'standard lexical semantics (result, printed output, final values of a b c; error vs value for unbound/undefined/'
        'redefinition/arity) and with the extracted Coq model. thorough adds every expression of <= 5 nodes over '
        '{a,b} x {set,let,fn-call,+,do}. distinct = distinct program texts; non-trivial = program binds a name')

PROBE = "(list (if (defined? 'a) a 'undef) (if (defined? 'b) b 'undef) (if (defined? 'c) c 'undef))"

# known finding: a name defined at run time by (eval '(define x ..)) inside a let/fn scope is invisible to the static
# resolver, so a later read of x in that scope, already resolved to an outer binding of x, does not see it
KNOWN_EVAL_DEFINE = "(do (define c 4) (let ([a (eval '(define c 3))]) c))"
EVAL_DEFINE_MARK = "(eval '(define"


def ref_run(prog):
    r = cc.Ref()
    try:
        v = r.ev(prog, r.genv)
        res = 'ok ' + r.ser(v)
        probe = 'ok ( ' + ''.join((r.ser(r.genv.vars[n]) if n in r.genv.vars else 'Y' + b'undef'.hex()) + ' ' for n in 'abc') + ')'
        return res, ''.join(r.out), probe
    except cc.RefError:
        return 'err', ''.join(r.out), None
    except (cc.RefSkip, RecursionError):
        return None, None, None


def run(tier, seed, replay=None):
    rep = lib.Report(PID, tier, seed)
    build = lib.Build().run()
    rep.proof = lib.compile_props(PID)
    rng = lib.rng_for(seed, PID)
    g = cc.Gen(rng)
    n = 300 if tier == 'quick' else 36000
    cases = []
    for c in range(n):
        prog = g.program(rng.choice([2, 3, 3, 4]))
        text = cc.render(prog)
        exp = ref_run(prog)
        mode = 'evalstr' if c % 3 else 'barestr'
        cases.append({'id': len(cases), 'cmds': [[mode, '111', text], [mode, '111', PROBE]], 'text': text, 'exp': exp, 'kind': mode})
        if EVAL_DEFINE_MARK in text:
            # the same program with every name looked up dynamically: used to recognise the known finding
            cases[-1]['sib'] = len(cases)
            cases.append({'id': len(cases), 'cmds': [[mode, '110', text], [mode, '110', PROBE]], 'text': text, 'exp': exp,
                          'kind': 'dynamic-sibling', 'sibling': True})
    for prog in cc.shadowing_programs():
        text = cc.render(prog)
        exp = ref_run(prog)
        for mode in ('evalstr', 'barestr'):
            cases.append({'id': len(cases), 'cmds': [[mode, '111', text], [mode, '111', PROBE]], 'text': text, 'exp': exp, 'kind': 'shadowing'})
    for prog in cc.discarded_value_programs():
        text = cc.render(prog)
        exp = ref_run(prog)
        for mode in ('evalstr', 'barestr'):
            cases.append({'id': len(cases), 'cmds': [[mode, '111', text], [mode, '111', PROBE]], 'text': text, 'exp': exp, 'kind': 'discarded'})
    prog0 = ('do', ('define', 'c', 4), ('let', [('a', ('eval', ('quote', [cc.Sym('define'), cc.Sym('c'), 3])))], [cc.Sym('c')]))
    cases.append({'id': len(cases), 'cmds': [['evalstr', '111', KNOWN_EVAL_DEFINE], ['evalstr', '111', PROBE]], 'text': KNOWN_EVAL_DEFINE,
                  'exp': ('ok I3', '', None), 'kind': 'known-probe', 'sib': len(cases) + 1})
    cases.append({'id': len(cases), 'cmds': [['evalstr', '110', KNOWN_EVAL_DEFINE], ['evalstr', '110', PROBE]], 'text': KNOWN_EVAL_DEFINE,
                  'exp': ('ok I3', '', None), 'kind': 'dynamic-sibling', 'sibling': True})
    # enumerated small programs, batched (they are total: no errors possible)
    small = []
    for size in range(1, 6):
        small += cc.enum_exprs(size)
    if tier == 'quick':
        small = rng.sample(small, 600)
    else:
        rep.extra['exhaustive_le5_nodes'] = len(small)
    for k in range(0, len(small), 100):
        chunk = small[k:k + 100]
        progs = [('let', [('a', 1), ('b', 2)], [('list', e, cc.Sym('a'), cc.Sym('b'))]) for e in chunk]
        exps = []
        for p in progs:
            r = cc.Ref()
            exps.append(r.ser(r.ev(p, r.genv)))
        text = '(list ' + ' '.join(cc.render(p) for p in progs) + ')'
        cases.append({'id': len(cases), 'cmds': [['evalstr', '111', text]], 'text': text,
                      'exp': ('ok ( ' + ' '.join(exps) + ' )', '', None), 'kind': 'enum', 'n': len(chunk)})

    listed = [k for k in lib.load_known() if k.get('property') == PID and k.get('status') == 'open'
              and k.get('input') == KNOWN_EVAL_DEFINE]
    by_id = {}
    known_seen = []

    def oracle(case, impl):
        why = oracle0(case, impl)
        if why and not case.get('sibling') and 'sib' in case and EVAL_DEFINE_MARK in case['text']:
            sib_case, sib_impl = by_id.get(case['sib'], (None, None))
            if sib_impl is not None and not sib_impl.get('crash') and oracle0(sib_case, sib_impl) is None and listed:
                # with dynamic lookup the program meets the reference: this is the listed finding, not a new violation
                known_seen.append(case['text'][:200])
                return None
        return why

    def oracle0(case, impl):
        res, out, probe = case['exp']
        if res is None:
            return None
        got = (impl.get('results') or [''])
        r0 = got[0]
        if r0.startswith('err REC') or r0.startswith('err TIMEOUT'):
            rep.skip('impl-' + r0.split()[1])     # Python's recursion limit / the harness time limit: not a verdict
            return None
        if res == 'err':
            if r0.startswith('ok'):
                return f'program must raise (unbound/undefined/redefinition/arity/type) but yielded {r0}: {case["text"][:300]}'
            return None
        if r0.startswith('err'):
            return f'program failed with {r0[:40]} but the reference yields {res}: {case["text"][:300]}'
        if lib.canon(r0) != lib.canon(res):
            return f'result {r0[:200]} expected {res[:200]}: {case["text"][:300]}'
        f = lib.final_fields(impl.get('final', ''))
        if impl.get('final', '').startswith('END') and f['out_text'] != out:
            return f'printed {f["out_text"]!r} expected {out!r}: {case["text"][:300]}'
        if probe and len(got) > 1 and lib.canon(got[1]) != lib.canon(probe):
            return f'final variables {got[1]} expected {probe}: {case["text"][:300]}'
        return None

    results = lib.run_sessions(cases)
    for case, impl, mout, cmp in results:
        by_id[case['id']] = (case, impl)
    lib.std_checks(rep, results, oracle)
    if known_seen:
        rep.known_hits.append(listed[0]['what'])
        rep.extra['known_eval_define_programs'] = len(known_seen)
    for c in cases:
        rep.count(c['kind'])
        rep.count('ref=' + ('skip' if c['exp'][0] is None else 'err' if c['exp'][0] == 'err' else 'value'))
        if 'define' in c['text'] or 'let' in c['text'] or 'fn' in c['text']:
            rep.nontrivial(c['text'])
    rep.evaluations = sum(c.get('n', 1) for c in cases)
    rep.samples = [c['text'][:300] for c in cases[:3]]
    return lib.finish(rep, build, level='proof', rule=RULE, assumptions=[
        'programs terminate; a top-level form that is itself a falsy literal is excluded (known finding: Wal.eval returns None for it)',
        'the reference interpreter skips programs that print closures or add non-integers'])
