"""corecalc.py — the core calculus of C06/C07/C08: program generator (ASTs as nested
tuples), renderer to WAL text and an independent reference interpreter with the
standard lexically scoped, applicative-order, left-to-right semantics."""


class RefError(Exception):
    pass


class RefSkip(Exception):
    '''behaviour the reference does not model (not an error of the program)'''


class Closure:
    def __init__(self, params, body, env, variadic):
        self.params, self.body, self.env, self.variadic = params, body, env, variadic


class Env:
    def __init__(self, parent=None):
        self.vars = {}
        self.parent = parent

    def find(self, n):
        e = self
        while e is not None:
            if n in e.vars:
                return e
            e = e.parent
        return None


class Sym(str):
    pass


def render(e):
    if isinstance(e, bool):
        return '#t' if e else '#f'
    if isinstance(e, int):
        return str(e)
    if isinstance(e, Sym):
        return str(e)
    if isinstance(e, str):
        return '"' + e + '"'
    if isinstance(e, tuple):
        h = e[0]
        if h == 'let':
            return '(let (' + ' '.join('[%s %s]' % (n, render(v)) for n, v in e[1]) + ') ' + ' '.join(render(b) for b in e[2]) + ')'
        if h == 'fn':
            ps = e[1] if isinstance(e[1], str) else '[' + ' '.join(e[1]) + ']'
            return '(fn %s %s)' % (ps, ' '.join(render(b) for b in e[2]))
        if h == 'set':
            return '(set ' + ' '.join('[%s %s]' % (n, render(v)) for n, v in e[1]) + ')'
        if h == 'define':
            return '(define %s %s)' % (e[1], render(e[2]))
        if h == 'case':
            return '(case %s %s)' % (render(e[1]), ' '.join('[%s %s]' % (render_key(k), ' '.join(render(b) for b in body)) for k, body in e[2]))
        if h == 'quote':
            return "'" + render_data(e[1])
        if h == 'qq':
            return '`' + render_qq(e[1])
        if h == 'call':
            return '(' + ' '.join(render(x) for x in e[1:]) + ')'
        return '(' + h + ''.join(' ' + render(x) for x in e[1:]) + ')'
    raise TypeError(e)


def render_key(k):
    return 'default' if k == 'default' else render(k)


def render_data(d):
    if isinstance(d, list):
        return '(' + ' '.join(render_data(x) for x in d) + ')'
    return render(d)


def render_qq(d):
    if isinstance(d, list):
        return '(' + ' '.join(render_qq(x) for x in d) + ')'
    if isinstance(d, tuple) and d[0] == 'unq':
        return ',' + render(d[1])
    if isinstance(d, tuple) and d[0] == 'unqs':
        return ',@' + render(d[1])
    return render(d)


# ------------------------------------------------------------------ reference semantics
class Ref:
    def __init__(self, max_steps=20000):
        self.out = []
        self.genv = Env()
        self.steps = 0
        self.max = max_steps

    def truthy(self, v):
        if v is None or v is False:
            return False
        if isinstance(v, (int, str, list)) and not isinstance(v, Sym):
            return bool(v)
        return True

    def show(self, v):
        if isinstance(v, bool):
            return 'true' if v else 'false'
        if v is None:
            return 'None'
        if isinstance(v, Sym):
            return str(v)
        if isinstance(v, str):
            return v
        if isinstance(v, int):
            return str(v)
        if isinstance(v, list):
            return '(' + ' '.join(self.show_in(x) for x in v) + ')'
        raise RefSkip('unprintable')

    def show_in(self, v):
        if isinstance(v, str) and not isinstance(v, Sym):
            return '"' + v + '"'
        return self.show(v)

    def ev(self, e, env):
        self.steps += 1
        if self.steps > self.max:
            raise RefError('steps')
        if isinstance(e, (bool, int, Closure)):
            return e
        if e is None or isinstance(e, list):
            raise RefError('not an expression')
        if isinstance(e, Sym):
            f = env.find(str(e))
            if f is None:
                raise RefError('unbound ' + e)
            return f.vars[str(e)]
        if isinstance(e, str):
            return e
        h = e[0]
        if h == 'define':
            if e[1] in env.vars:
                raise RefError('redefine')
            v = self.ev(e[2], env)
            if e[1] in env.vars:
                raise RefError('redefine')
            env.vars[e[1]] = v
            return v
        if h == 'let':
            ne = Env(env)
            for n, x in e[1]:
                v = self.ev(x, ne)
                if n in ne.vars:
                    raise RefError('redefine')
                ne.vars[n] = v
            r = None
            for b in e[2]:
                r = self.ev(b, ne)
            return r
        if h == 'fn':
            return Closure(e[1], e[2], env, isinstance(e[1], str))
        if h == 'set':
            r = None
            for n, x in e[1]:
                r = self.ev(x, env)
                f = env.find(n)
                if f is None:
                    raise RefError('set undefined')
                f.vars[n] = r
            return r
        if h == 'if':
            if self.truthy(self.ev(e[1], env)):
                return self.ev(e[2], env)
            return self.ev(e[3], env) if len(e) > 3 else None
        if h == 'do':
            r = None
            for b in e[1:]:
                r = self.ev(b, env)
            return r
        if h == 'while':
            r = None
            while self.truthy(self.ev(e[1], env)):
                for b in e[2:]:
                    r = self.ev(b, env)
            return r
        if h == 'case':
            k = self.ev(e[1], env)
            default = None
            for key, body in e[2]:
                if key != 'default' and key == k:
                    r = None
                    for b in body:
                        r = self.ev(b, env)
                    return r
                if key == 'default':
                    default = body
            if default is not None:
                r = None
                for b in default:
                    r = self.ev(b, env)
                return r
            return None
        if h == 'print':
            vs = [self.ev(x, env) for x in e[1:]]
            self.out.append(''.join(self.show(v) for v in vs) + '\n')
            return None
        if h == 'quote':
            return self.data(e[1])
        if h == 'qq':
            return self.qq(e[1], env)
        if h == 'eval':
            d = self.ev(e[1], env)
            return self.ev(self.code(d), env)
        if h == 'list':
            return [self.ev(x, env) for x in e[1:]]
        if h in ('first', 'second'):
            v = self.ev(e[1], env)
            i = 0 if h == 'first' else 1
            if not isinstance(v, list) or len(v) <= i:
                raise RefError('first/second')
            return v[i]
        if h in ('+', '-', '*'):
            vs = [self.ev(x, env) for x in e[1:]]
            if not all(isinstance(v, int) for v in vs):
                if h == '+':
                    raise RefSkip('non-int +')
                raise RefError('type')
            if h == '+':
                return sum(vs)
            if h == '-':
                return -vs[0] if len(vs) == 1 else vs[0] - sum(vs[1:])
            r = 1
            for v in vs:
                r *= v
            return r
        if h in ('=', '<', '>'):
            if h == '=' and len(e) > 3:
                # every operand is evaluated, left to right, whatever the earlier ones were
                vs = [self.ev(x, env) for x in e[1:]]
                if any(isinstance(v, Closure) for v in vs):
                    raise RefError('closure eq')
                return all(v == vs[0] and isinstance(v, Sym) == isinstance(vs[0], Sym) for v in vs[1:])
            a, b = self.ev(e[1], env), self.ev(e[2], env)
            if h == '=':
                if isinstance(a, Closure) or isinstance(b, Closure):
                    raise RefError('closure eq')
                return a == b and isinstance(a, Sym) == isinstance(b, Sym)
            if not (isinstance(a, int) and isinstance(b, int)):
                raise RefError('type')
            return a < b if h == '<' else a > b
        if h == 'call':
            f = self.ev(e[1], env)
            if not isinstance(f, Closure):
                raise RefError('not callable')
            ne = Env(f.env)
            if f.variadic:
                ne.vars[f.params] = [self.ev(a, env) for a in e[2:]]
            else:
                if len(f.params) != len(e) - 2:
                    raise RefError('arity')
                for p, a in zip(f.params, e[2:]):
                    v = self.ev(a, env)
                    if p in ne.vars:
                        raise RefError('dup param')
                    ne.vars[p] = v
            r = None
            for b in f.body:
                r = self.ev(b, ne)
            return r
        raise RefError('unknown form ' + str(h))

    def data(self, d):
        if isinstance(d, list):
            return [self.data(x) for x in d]
        return d

    def qq(self, d, env):
        if isinstance(d, list):
            out = []
            for x in d:
                if isinstance(x, tuple) and x[0] == 'unq':
                    out.append(self.ev(x[1], env))
                elif isinstance(x, tuple) and x[0] == 'unqs':
                    v = self.ev(x[1], env)
                    if not isinstance(v, list):
                        raise RefError('splice')
                    out += v
                else:
                    out.append(self.qq(x, env))
            return out
        return d

    def code(self, d):
        """data -> program (for eval): lists whose head is a known form symbol"""
        if isinstance(d, list):
            if not d:
                raise RefError('empty form')
            h = d[0]
            if isinstance(h, Sym) and str(h) == 'set':
                return ('set', [(str(p[0]), self.code(p[1])) for p in d[1:]])
            if isinstance(h, Sym) and str(h) == 'define':
                return ('define', str(d[1]), self.code(d[2]))
            if isinstance(h, Sym) and str(h) in ('+', '-', '*', '=', '<', '>', 'list', 'print', 'do', 'if'):
                return (str(h),) + tuple(self.code(x) for x in d[1:])
            if isinstance(h, Sym):
                return ('call', h) + tuple(self.code(x) for x in d[1:])
            raise RefError('eval of odd data')
        return d

    def ser(self, v):
        if v is None:
            return 'N'
        if isinstance(v, bool):
            return 'B1' if v else 'B0'
        if isinstance(v, int):
            return 'I%d' % v
        if isinstance(v, Sym):
            return 'Y' + str(v).encode().hex()
        if isinstance(v, str):
            return 'S' + v.encode().hex()
        if isinstance(v, list):
            return '( ' + ''.join(self.ser(x) + ' ' for x in v) + ')'
        if isinstance(v, Closure):
            return 'C'
        raise RefError('ser')


# ------------------------------------------------------------------ generator
NAMES = ['a', 'b', 'c']


class Gen:
    def __init__(self, rng, names=NAMES, effects=True, allow_err=0.03):
        self.rng = rng
        self.names = names
        self.effects = effects
        self.allow_err = allow_err

    def name(self, scope):
        if scope and self.rng.random() > self.allow_err:
            return self.rng.choice(sorted(scope))
        return self.rng.choice(self.names)

    def atom(self, scope):
        r = self.rng.random()
        if r < 0.5 and (scope or self.rng.random() < self.allow_err):
            return Sym(self.name(scope))
        if r < 0.85:
            return self.rng.randrange(0, 4)
        if r < 0.9:
            return self.rng.choice([True, False])
        return self.rng.choice(['s', '', 'ab'])

    def expr(self, depth, scope, funcs):
        """scope: set of names bound to ints (mostly); funcs: dict name -> arity (or 'v' variadic)"""
        rng = self.rng
        if depth <= 0 or rng.random() < 0.15:
            return self.atom(scope)
        r = rng.random()
        if r < 0.14:
            op = rng.choice(['+', '-', '*'])
            n = rng.choice([1, 2, 2, 3]) if op != '*' else rng.choice([2, 2, 3])
            return (op,) + tuple(self.int_expr(depth - 1, scope, funcs) for _ in range(n))
        if r < 0.22:
            return (rng.choice(['=', '<', '>']), self.int_expr(depth - 1, scope, funcs), self.int_expr(depth - 1, scope, funcs))
        if r < 0.32:
            k = rng.randrange(1, 3)
            binds = []
            sc = set(scope)
            for _ in range(k):
                n = rng.choice(self.names)
                if n in [b[0] for b in binds]:
                    continue
                binds.append((n, self.expr(depth - 1, sc, funcs)))
                sc.add(n)
            fs = {f: a for f, a in funcs.items() if f not in [b[0] for b in binds]}
            return ('let', binds, [self.expr(depth - 1, sc, fs) for _ in range(rng.choice([1, 1, 2]))])
        if r < 0.42 and self.effects and scope:
            n = self.name(scope)
            return ('set', [(n, self.int_expr(depth - 1, scope, funcs))])
        if r < 0.50:
            return ('if', self.expr(depth - 1, scope, funcs), self.expr(depth - 1, scope, funcs), self.expr(depth - 1, scope, funcs))
        if r < 0.58:
            return ('do',) + tuple(self.expr(depth - 1, scope, funcs) for _ in range(rng.choice([1, 2, 3])))
        if r < 0.66 and self.effects:
            return ('print',) + tuple(self.expr(depth - 1, scope, funcs) for _ in range(rng.choice([1, 2])))
        if r < 0.76:
            # immediate application of a lambda (fixed or variadic)
            if rng.random() < 0.25:
                p = rng.choice(self.names)
                sc = set(scope) - {p}
                body = [self.expr(depth - 1, sc, {f: a for f, a in funcs.items() if f != p})]
                return ('call', ('fn', p, body)) + tuple(self.expr(depth - 1, scope, funcs) for _ in range(rng.randrange(0, 3)))
            ps = rng.sample(self.names, rng.choice([0, 1, 2]))
            sc = set(scope) | set(ps)
            fs = {f: a for f, a in funcs.items() if f not in ps}
            body = [self.expr(depth - 1, sc, fs) for _ in range(rng.choice([1, 2]))]
            nargs = len(ps) if rng.random() > self.allow_err else len(ps) + 1
            return ('call', ('fn', ps, body)) + tuple(self.int_expr(depth - 1, scope, funcs) for _ in range(nargs))
        if r < 0.86 and funcs:
            f = rng.choice(sorted(k for k, v in funcs.items() if v != 'x') or ['zz'])
            ar = funcs.get(f, 0)
            n = rng.randrange(0, 3) if ar == 'v' else ar
            return ('call', Sym(f)) + tuple(self.int_expr(depth - 1, scope, funcs) for _ in range(n))
        if r < 0.90:
            k = rng.randrange(1, 4)
            keys = rng.sample([0, 1, 2, 3], k)
            clauses = [(key, [self.expr(depth - 1, scope, funcs)]) for key in keys]
            if rng.random() < 0.6:
                clauses.insert(rng.randrange(0, len(clauses) + 1), ('default', [self.expr(depth - 1, scope, funcs)]))
            return ('case', self.int_expr(depth - 1, scope, funcs), clauses)
        if r < 0.92:
            return ('quote', self.datum(2))
        if r < 0.95:
            return ('qq', [Sym('lst'), ('unq', self.int_expr(depth - 1, scope, funcs)), rng.randrange(3),
                           ('unqs', ('list', self.int_expr(depth - 1, scope, funcs)))])
        if self.effects and scope and rng.random() < 0.6:
            # eval of quoted code that assigns / defines (runs in the current environment)
            n = self.name(scope)
            if rng.random() < 0.8:
                return ('eval', ('quote', [Sym('set'), [Sym(n), [Sym('+'), Sym(n), rng.randrange(1, 4)]]]))
            return ('eval', ('quote', [Sym('define'), Sym(rng.choice(self.names)), rng.randrange(5)]))
        return ('eval', ('qq', [Sym(rng.choice(['+', '*'])), ('unq', self.int_expr(depth - 1, scope, funcs)), rng.randrange(1, 4)]))

    def int_expr(self, depth, scope, funcs):
        rng = self.rng
        if depth <= 0 or rng.random() < 0.3:
            if scope and rng.random() < 0.6:
                return Sym(self.name(scope))
            return rng.randrange(0, 5)
        r = rng.random()
        if r < 0.4:
            op = rng.choice(['+', '-', '*'])
            return (op, self.int_expr(depth - 1, scope, funcs), self.int_expr(depth - 1, scope, funcs))
        if r < 0.55 and funcs:
            f = rng.choice(sorted(k for k, v in funcs.items() if v != 'x') or ['zz'])
            ar = funcs.get(f, 0)
            if ar != 'v':
                return ('call', Sym(f)) + tuple(self.int_expr(depth - 1, scope, funcs) for _ in range(ar))
        if r < 0.7:
            return ('if', (rng.choice(['<', '>', '=']), self.int_expr(depth - 1, scope, funcs), rng.randrange(4)),
                    self.int_expr(depth - 1, scope, funcs), self.int_expr(depth - 1, scope, funcs))
        if r < 0.8 and self.effects and scope:
            return ('do', ('print', Sym(self.name(scope))), self.int_expr(depth - 1, scope, funcs))
        if r < 0.9:
            n = rng.choice(self.names)
            return ('let', [(n, self.int_expr(depth - 1, scope, funcs))], [self.int_expr(depth - 1, set(scope) | {n}, {f: a for f, a in funcs.items() if f != n})])
        return rng.randrange(0, 5)

    def datum(self, depth):
        rng = self.rng
        if depth <= 0 or rng.random() < 0.5:
            return rng.choice([Sym('a'), Sym('q'), 1, 2, 's'])
        return [self.datum(depth - 1) for _ in range(rng.randrange(0, 4))]

    def program(self, size=3):
        """a closed multi-statement program: global defines, functions (incl. counters shared between
        closures, recursion, higher-order), then expressions"""
        rng = self.rng
        stmts = []
        scope = set()
        funcs = {}
        for _ in range(rng.randrange(0, 3)):
            n = rng.choice([x for x in self.names if x not in scope and x not in funcs] or [None])
            if n is None:
                break
            stmts.append(('define', n, self.int_expr(1, scope, funcs)))
            scope.add(n)
        kinds = ['plain', 'counter', 'rec', 'hof', 'variadic']
        for _ in range(rng.randrange(0, 3)):
            k = rng.choice(kinds)
            fname = rng.choice(['f', 'g', 'h'])
            if fname in funcs:
                continue
            if k == 'plain':
                ps = rng.sample(self.names, rng.choice([0, 1, 2]))
                sc = set(scope) | set(ps)
                body = [self.expr(size, sc, dict(funcs)) for _ in range(rng.choice([1, 2]))]
                stmts.append(('define', fname, ('fn', ps, body)))
                funcs[fname] = len(ps)
            elif k == 'counter':
                # two closures sharing one binding
                if 'p' in funcs or 'g' in funcs or 'f' in funcs:
                    continue
                stmts.append(('define', 'p', ('let', [('n', rng.randrange(3))],
                                              [('list', ('fn', [], [('set', [('n', ('+', Sym('n'), 1))])]), ('fn', [], [Sym('n')]))])))
                stmts.append(('define', 'f', ('first', Sym('p'))))
                stmts.append(('define', 'g', ('second', Sym('p'))))
                funcs['f'] = 0
                funcs['g'] = 0
                funcs['p'] = 'x'
            elif k == 'rec':
                stmts.append(('define', fname, ('fn', ['n'], [('if', ('<', Sym('n'), 1), rng.randrange(3),
                                                                 ('+', Sym('n'), ('call', Sym(fname), ('-', Sym('n'), 1))))])))
                funcs[fname] = 1
            elif k == 'hof':
                stmts.append(('define', fname, ('fn', ['k'], [('fn', ['x'], [('+', Sym('x'), Sym('k'))])])))
                stmts.append(('define', fname + 'a', ('call', Sym(fname), rng.randrange(5))))
                funcs[fname + 'a'] = 1
            else:
                stmts.append(('define', fname, ('fn', 'xs', [Sym('xs')])))
                funcs[fname] = 'v'
        fixed = sorted(f for f, a in funcs.items() if isinstance(a, int))
        if fixed and rng.random() < 0.5:
            # a call site inside a function body, executed before and after the callee is rebound
            callee = rng.choice(fixed)
            ar = funcs[callee]
            stmts.append(('define', 'via', ('fn', ['v'], [('call', Sym(callee)) + tuple(Sym('v') for _ in range(ar))])))
            stmts.append(('print', ('call', Sym('via'), rng.randrange(5))))
            ps = ['x%d' % i for i in range(ar)]
            stmts.append(('set', [(callee, ('fn', ps, [('+', 100) + tuple(Sym(p) for p in ps) if ps else 100]))]))
            stmts.append(('print', ('call', Sym('via'), rng.randrange(5))))
            # a parameter named like the global function shadows it
            if ar == 1:
                stmts.append(('define', 'app', ('fn', [callee, 'v'], [('call', Sym(callee), Sym('v'))])))
                stmts.append(('print', ('call', Sym('app'), ('fn', ['z'], [('-', Sym('z'))]), 3)))
                stmts.append(('print', ('call', Sym('app'), ('fn', ['z'], [('*', Sym('z'), 7)]), 3)))
            funcs['via'] = 1
        for _ in range(rng.randrange(1, 4)):
            if rng.random() < 0.3 and scope:
                stmts.append(('while', ('<', Sym(rng.choice(sorted(scope))), 3),
                              ('set', [(n, ('+', Sym(n), 1)) for n in sorted(scope)[:1]]), ('print', Sym(sorted(scope)[0]))))
                # make the loop terminate: the condition variable is the incremented one
                n0 = sorted(scope)[0]
                stmts[-1] = ('while', ('<', Sym(n0), 3), ('set', [(n0, ('+', Sym(n0), 1))]), ('print', Sym(n0)))
            else:
                stmts.append(self.expr(size, scope, funcs))
        return ('do',) + tuple(stmts)


# ------------------------------------------------------------------ bounded-exhaustive small programs
def enum_exprs(size, names=('a', 'b')):
    """all expressions of exactly `size` nodes over a small grammar in which shadowing and capture occur"""
    memo = {}

    def go(n):
        if n in memo:
            return memo[n]
        out = []
        if n == 1:
            out = [Sym(x) for x in names] + [1, 2]
        else:
            for x in names:
                for e in go(n - 1):
                    out.append(('set', [(x, e)]))
                for k in range(1, n - 1):
                    for e1 in go(k):
                        for e2 in go(n - 1 - k):
                            out.append(('let', [(x, e1)], [e2]))
                            out.append(('call', ('fn', [x], [e2]), e1))
            for k in range(1, n - 1):
                for e1 in go(k):
                    for e2 in go(n - 1 - k):
                        out.append(('+', e1, e2))
                        out.append(('do', e1, e2))
            for e in go(n - 1):
                out.append(('call', ('fn', [], [e])))
        memo[n] = out
        return out
    return go(size)


# ------------------------------------------------------------------ targeted binder shapes (always run by C06 and C07)
def shadowing_programs():
    """programs in which a later let initialiser reads or assigns an earlier binding of the same let that shadows an outer
    variable, and function bodies that use an outer name and then define it locally (define after use)"""
    S = Sym
    out = []
    for A, B in (('a', 'b'), ('b', 'c'), ('c', 'a')):
        for v1, v2 in ((1, 2), (3, 10)):
            out.append(('do', ('define', A, v1), ('let', [(A, v2), (B, S(A))], [S(B)])))
            out.append(('do', ('define', A, v1), ('define', B, ('let', [(A, v2), (B, ('+', S(A), 1))], [S(B)])), ('list', S(A), S(B))))
            out.append(('do', ('define', B, ('fn', [A], [('let', [(A, ('+', S(A), 1)), (B, ('*', S(A), 2))], [S(B)])])), ('call', S(B), v1)))
            out.append(('do', ('define', A, v1), ('list', ('let', [(A, v2), (B, ('set', [(A, 7)]))], [S(A)]), S(A))))
            out.append(('do', ('define', A, v1), ('let', [(A, v2), (B, S(A)), ('c' if 'c' not in (A, B) else 'a', ('+', S(A), S(B)))],
                                                  [('list', S(A), S(B))])))
            # use, then define, then use / assign in the same function body
            out.append(('do', ('define', A, v1), ('call', ('fn', [], [('print', S(A)), ('define', A, v2), S(A)]))))
            out.append(('do', ('define', A, v1),
                        ('define', B, ('fn', ['n'], [('define', 'before', S(A)), ('define', A, S('n')), ('set', [(A, ('+', S(A), 10))]),
                                                     ('list', S('before'), S(A))])),
                        ('list', ('call', S(B), v2), S(A))))
            out.append(('do', ('define', A, v1),
                        ('define', B, ('fn', [A], [('let', [('k', 2)], [('define', 'seen', S(A)), ('define', A, ('*', S('k'), S('seen'))),
                                                                       ('set', [(A, ('+', S(A), 1))]), S(A)])])),
                        ('list', ('call', S(B), v2), S(A))))
    return out


def discarded_value_programs():
    """a value that is discarded is still computed: an unbound name in a non-final position of do / a body raises,
    a bound one does not; literals in front are harmless"""
    S = Sym
    out = []
    for A in ('a', 'b'):
        out.append(('do', S('nosuch'), 1))
        out.append(('do', 1, S('nosuch'), 2))
        out.append(('do', ('define', A, 1), S('zz'), S(A)))
        out.append(('do', ('define', A, 1), S(A), 5, S(A)))
        out.append(('let', [(A, 1)], [('do', S('q'), S(A))]))
        out.append(('call', ('fn', [A], [('do', S('y'), S(A))]), 1))
        out.append(('do', ('define', A, 1), ('if', 1, ('do', S('w'), 2), 3)))
        out.append(('do', ('define', A, 1), ('do', 7, "s", S(A), ('set', [(A, 2)]), S(A))))
        # a comparison evaluates all its operands, also after the result is decided
        out.append(('=', 1, 2, S('nosuch')))
        out.append(('do', ('define', A, 0), ('=', 1, 2, ('set', [(A, 5)])), S(A)))
        out.append(('do', ('define', A, 0), ('list', ('=', 1, 2, ('print', 7)), ('=', 3, 3, ('do', ('print', 8), 3)), S(A))))
        # case selects a clause by the VALUE of the key form (a comparison result selects the clause 1 / 0; a string
        # never selects a number clause), and runs the body of that clause only
        out.append(('do', ('define', A, 2), ('case', ('=', S(A), 2), [(1, [('print', 1), ('set', [(A, 7)]), S(A)]), (0, [('print', 0), 5]), ('default', [('print', 9), 6])])))
        out.append(('do', ('define', A, 2), ('case', ('=', S(A), 3), [(1, [('print', 1), 4]), (0, [('print', 0), ('set', [(A, 8)]), S(A)]), ('default', [('print', 9), 6])])))
        out.append(('do', ('define', A, 2), ('case', ('<', S(A), 3), [(0, [('print', 0), 5]), (1, [('print', 1), 4])])))
        out.append(('do', ('define', A, 1), ('case', "1", [(1, [('print', 1), 4]), ('default', [('print', 9), S(A)])])))
    return out
