"""C02 — time navigation is exact and bounds-safe."""
import lib
import gen

PID = 'C02'
RULE = ('each evaluation is one navigation history (length <= 40 quick / 60 thorough) over (step), (step n), (step "tid"), '
        '(step tid.. n), (step tid.. <expression over tid^INDEX>), (set-index i), (set-index/all i), (step (- INDEX)) with amounts in [-(N+2), N+2], on one trace and on two '
        'traces of different lengths, with INDEX/TS/one signal observed after every operation; compared with a reference stepper '
        '(oracle) and with the extracted Coq model. distinct = distinct histories; non-trivial = history contains an out-of-range '
        'request and an in-range move')


class Ref:
    def __init__(self, infos):
        self.infos = infos              # tid -> info
        self.idx = {t: 0 for t in infos}

    def step(self, tids, n):
        ok = True
        for t in tids:
            r = self.idx[t] + n
            if r < 0 or r > self.infos[t]['n'] - 1:
                ok = False
            else:
                self.idx[t] = r
        return ok


def gen_case(rng, cid, two, length):
    cmds = []
    infos = {}
    tids = ['a', 'ab'] if two else ['DEFAULT']      # one id is a prefix of the other: ids are compared as wholes
    for t in tids:
        text, info = gen.simple_trace(rng, n=rng.randrange(1, 9), scopes={'top': ['clk', 'a']})
        cmds += [['file', t + '.vcd', text], ['load', t + '.vcd', t]]
        infos[t] = info
    ref = Ref(infos)
    expect = []
    ops = []
    oob = moved = False
    N = max(i['n'] for i in infos.values())
    for _ in range(length):
        n = rng.randrange(-(N + 2), N + 3)
        if two:
            kind = rng.choice(['step', 'stepn', 'tid', 'tidn', 'tids', 'tidsym', 'tidsexpr'])
        else:
            kind = rng.choice(['step', 'stepn', 'stepn', 'setindex', 'home', 'tid', 'tidn', 'setall'])
        before = dict(ref.idx)
        if kind == 'step':
            txt, ok = '(step)', ref.step(tids, 1)
        elif kind == 'stepn':
            txt, ok = f'(step {n})', ref.step(tids, n)
        elif kind == 'tid':
            t = rng.choice(tids)
            txt, ok = f'(step "{t}")', ref.step([t], 1)
        elif kind == 'tidn':
            t = rng.choice(tids)
            txt, ok = f'(step "{t}" {n})', ref.step([t], n)
        elif kind == 'tidsym':
            t = rng.choice(tids)
            txt, ok = f'(step {t} {n})', ref.step([t], n)
        elif kind == 'tids':
            order = tids[:] if rng.random() < 0.5 else tids[::-1]
            txt, ok = f'(step {order[0]} "{order[1]}" {n})', ref.step(order, n)
        elif kind == 'tidsexpr':
            # the amount is an expression over the position of the trace stepped first: it is evaluated once
            order = tids[:] if rng.random() < 0.5 else tids[::-1]
            x = order[0]
            if rng.random() < 0.5:
                ex, amount = f'(- {x}^INDEX)', -ref.idx[x]
            else:
                ex, amount = f'(- {x}^MAX-INDEX {x}^INDEX)', infos[x]['n'] - 1 - ref.idx[x]
            txt, ok = f'(step {order[0]} "{order[1]}" {ex})', ref.step(order, amount)
        elif kind == 'setindex':
            i = rng.randrange(-2, N + 2)
            t = tids[0]
            if i < 0 or i > infos[t]['n'] - 1:
                txt, ok = f'(set-index {i})', False
            else:
                txt, ok = f'(set-index {i})', ref.step([t], i - ref.idx[t])
        elif kind == 'setall':
            i = rng.randrange(-2, N + 2)
            t = tids[0]
            if i < 0 or i > infos[t]['n'] - 1:
                txt, ok = f'(set-index/all {i})', False
            else:
                txt, ok = f'(set-index/all {i})', ref.step([t], i - ref.idx[t])
        else:
            t = tids[0]
            txt, ok = '(step (- INDEX))', ref.step([t], -ref.idx[t])
        if not ok:
            oob = True
        if before != ref.idx:
            moved = True
        ops.append(txt)
        cmds.append(['evalstr', '111', txt])
        expect.append('ok ' + lib.ser_py(ok))
        # observation
        if two:
            obs = '(list ' + ' '.join(f'{t}^INDEX {t}^TS {t}^MAX-INDEX {t}^top.a' for t in tids) + ')'
            val = []
            for t in tids:
                i = ref.idx[t]
                val += [i, infos[t]['ts'][i], infos[t]['n'] - 1, infos[t]['signals']['top.a'][i]]
        else:
            t = tids[0]
            i = ref.idx[t]
            obs = '(list INDEX TS MAX-INDEX top.a top.clk)'
            val = [i, infos[t]['ts'][i], infos[t]['n'] - 1, infos[t]['signals']['top.a'][i], infos[t]['signals']['top.clk'][i]]
        cmds.append(['evalstr', '111', obs])
        expect.append('ok ' + lib.ser_py(val))
    return {'id': cid, 'cmds': cmds, 'expect': expect, 'ops': ops, 'nontrivial': oob and moved, 'skip': 2 * len(tids)}


def check_expect(case, impl):
    res = impl.get('results') or []
    got = res[case['skip']:]
    for k, (g, e) in enumerate(zip(got, case['expect'])):
        if lib.canon(g) != lib.canon(e):
            op = case['ops'][k // 2]
            return f'after {case["ops"][:k // 2 + 1][-6:]}: {"result of " + op if k % 2 == 0 else "observation"} is {g} expected {e}'
    if len(got) < len(case['expect']):
        return f'session stopped early: {res[-1:]} after {case["ops"][:len(got) // 2 + 1][-6:]}'
    return None


def bfs_cases(rng):
    """all histories of length <= 5 over a 3-operation alphabet on a 3-sample trace"""
    import itertools
    out = []
    text, info = gen.simple_trace(rng, n=3, scopes={'top': ['clk', 'a']})
    alpha = [('(step)', 1), ('(step -1)', -1), ('(step 2)', 2)]
    for L in range(1, 6):
        for hist in itertools.product(alpha, repeat=L):
            cmds = [['file', 't.vcd', text], ['load', 't.vcd', 'DEFAULT']]
            ref = Ref({'DEFAULT': info})
            expect = []
            for txt, n in hist:
                ok = ref.step(['DEFAULT'], n)
                cmds.append(['evalstr', '111', txt])
                expect.append('ok ' + lib.ser_py(ok))
                cmds.append(['evalstr', '111', '(list INDEX TS)'])
                i = ref.idx['DEFAULT']
                expect.append('ok ' + lib.ser_py([i, info['ts'][i]]))
            out.append({'id': 0, 'cmds': cmds, 'expect': expect, 'ops': [h[0] for h in hist], 'nontrivial': True, 'skip': 2})
    return out


def run(tier, seed, replay=None):
    rep = lib.Report(PID, tier, seed)
    build = lib.Build().run()
    rep.proof = lib.compile_props(PID)
    rng = lib.rng_for(seed, PID)
    n = 60 if tier == 'quick' else 12000
    cases = [gen_case(rng, c, two=(c % 2 == 1), length=40 if tier == 'quick' else 60) for c in range(n)]
    if tier == 'thorough':
        cases += bfs_cases(rng)
        rep.extra['exhaustive_histories_le5'] = True
    for i, c in enumerate(cases):
        c['id'] = i
    results = lib.run_sessions(cases)
    lib.std_checks(rep, results, check_expect)
    for c in cases:
        if c['nontrivial']:
            rep.nontrivial(c['ops'])
        for o in c['ops']:
            rep.count(o.split()[0].strip('()'))
    rep.evaluations = sum(len(c['ops']) for c in cases)
    rep.samples = [' '.join(c['ops'][:12]) for c in cases[:3]]
    return lib.finish(rep, build, level='proof', rule=RULE, assumptions=[
        'every trace has at least one time index (MAX-INDEX >= 0)',
        'set-index and (step (- INDEX)) use unqualified INDEX/MAX-INDEX and are exercised with a single trace only'])
