"""C19 — resampling and trimming re-index the trace consistently."""
import lib
import gen

PID = 'C19'
RULE = ('each evaluation is one operation in a history of (sample-at L) (L increasing, with repeats, produced by find, single '
        'element, full range; repeated; from any current position), (trim-trace tid m) (m below, at and above MAX-INDEX, tid as '
        'string or symbol), navigation and scans on a generated trace with a virtual signal defined before resampling; after '
        'every operation INDEX, MAX-INDEX, TS, two signals, the virtual signal, an @ offset and a find are compared with what '
        'the original trace reports at the selected samples (reference computed from the generated data, oracle); every command '
        'also runs on the extracted Coq model. distinct = distinct histories; non-trivial = history contains a sample-at with '
        'at least two distinct indices')


def gen_case(rng, cid):
    n = rng.randrange(2, 9)
    text, info = gen.simple_trace(rng, n=n, scopes={'top': ['clk', 'a', 'b']})
    if rng.random() < 0.35 and n >= 3:
        # two samples with the same timestamp are still two indices (a VCD repeating a #t line)
        k = rng.randrange(1, n - 1)
        old, new = '#%d\n' % info['ts'][k + 1], '#%d\n' % info['ts'][k]
        if text.count(old) == 1:
            text = text.replace(old, new)
            info['ts'][k + 1] = info['ts'][k]
    A, B, CLK, TS = info['signals']['top.a'], info['signals']['top.b'], info['signals']['top.clk'], info['ts']
    cmds = [['file', 't.vcd', text], ['load', 't.vcd', 'DEFAULT'],
            ['evalstr', '111', '(defsig vn (+ (reval top.a 1) top.b))'], ['evalstr', '111', '(defsig vd (* 2 top.a))']]
    M = list(range(n))          # new index -> original index
    idx = 0
    expect = []
    ops = []
    nontrivial = False

    def vn_at(j):
        if j + 1 > len(M) - 1:
            return B[M[j]]               # (+ #f b) = b
        return A[M[j + 1]] + B[M[j]]

    trimmed = [False]
    last_sample = [None]

    def observe():
        j = idx
        # after a trim, a virtual signal looking across the new end is ambiguous (cached value from before the
        # trim vs. body evaluated after it): the property fixes neither, so it is not observed there
        amb = trimmed[0] and j + 1 > len(M) - 1
        cmds.append(['evalstr', '111', '(list INDEX MAX-INDEX TS top.a top.b %s vd (reval top.a 1) (reval TS -1) '
                                       '(find (= top.clk 1)) (count (> top.a 0)))' % ('top.b' if amb else 'vn')])
        at1 = A[M[j + 1]] if j + 1 <= len(M) - 1 else False
        tm1 = TS[M[j - 1]] if j - 1 >= 0 else False
        f = [k for k in range(j, len(M)) if CLK[M[k]] == 1]
        c = len([k for k in range(j, len(M)) if A[M[k]] > 0])
        expect.append('ok ' + lib.ser_py([j, len(M) - 1, TS[M[j]], A[M[j]], B[M[j]], vn_at(j), 2 * A[M[j]], at1, tm1, f, c]))

    observe()
    ops.append('observe')
    for _ in range(rng.randrange(3, 9)):
        kind = rng.choice(['sample', 'sample', 'samplefind', 'trim', 'nav', 'nav', 'read', 'sameagain'])
        if kind == 'sameagain' and last_sample[0] is not None:
            # the same sample-at once more (after whatever navigation happened): everything as after the first one
            txt, L = last_sample[0]
            M = list(dict.fromkeys(L))
            idx = 0
            trimmed[0] = False
            cmds.append(['evalstr', '111', txt])
            expect.append('ok N')
            ops.append('sample again ' + txt)
            observe()
            continue
        if kind == 'sameagain':
            kind = 'nav'
        if kind == 'sample':
            style = rng.choice(['inc', 'rep', 'single', 'full', 'shuffle'])
            if style == 'inc':
                L = sorted(rng.sample(range(n), rng.randrange(1, n + 1)))
            elif style == 'rep':
                L = sorted(rng.choice(range(n)) for _ in range(rng.randrange(2, n + 3)))
            elif style == 'single':
                L = [rng.randrange(n)]
            elif style == 'full':
                L = list(range(n))
            else:
                L = [rng.randrange(n) for _ in range(rng.randrange(1, n + 1))]
            tid = rng.choice(['', ' DEFAULT'])
            txt = "(sample-at '(%s)%s)" % (' '.join(map(str, L)), tid)
            M = list(dict.fromkeys(L))
            idx = 0
            trimmed[0] = False
            if len(M) > 1:
                nontrivial = True
            cmds.append(['evalstr', '111', txt])
            expect.append('ok N')
            last_sample[0] = (txt, L)
        elif kind == 'samplefind':
            # indices produced by find are positions of the current (possibly resampled) trace and are read as original indices
            f = [k for k in range(idx, len(M)) if CLK[M[k]] == 1]
            if not f:
                continue
            txt = '(sample-at (find (= top.clk 1)))'
            M = list(dict.fromkeys(f))
            idx = 0
            trimmed[0] = False
            cmds.append(['evalstr', '111', txt])
            expect.append('ok N')
        elif kind == 'trim':
            m = rng.choice([len(M) - 1, len(M), len(M) + 3] + list(range(idx, len(M))))
            tid = rng.choice(['"DEFAULT"', "'DEFAULT"])
            txt = f'(trim-trace {tid} {m})'
            newmax = min(m, len(M) - 1)
            M = M[:newmax + 1]
            trimmed[0] = True
            cmds.append(['evalstr', '111', txt])
            expect.append('ok ' + lib.ser_py(newmax))
        elif kind == 'nav':
            k = rng.randrange(-(len(M)), len(M) + 1)
            ok = 0 <= idx + k <= len(M) - 1
            if ok:
                idx += k
            txt = f'(step {k})'
            cmds.append(['evalstr', '111', txt])
            expect.append('ok ' + lib.ser_py(ok))
        else:
            txt = 'observe'
        ops.append(txt)
        observe()
    return {'id': cid, 'cmds': cmds, 'expect': expect, 'ops': ops, 'nontrivial': nontrivial}


def oracle(case, impl):
    res = (impl.get('results') or [])[4:]
    cm = case['cmds'][4:]
    for k, e in enumerate(case['expect']):
        if k >= len(res):
            return f'session stopped at {res[-1:]} after {[c[2] for c in cm[:k + 1] if not c[2].startswith("(list INDEX")][-5:]}'
        if lib.canon(res[k]) != lib.canon(e):
            hist = [c[2] for c in cm[:k + 1] if not c[2].startswith('(list INDEX')]
            return f'after {hist[-6:]}: {cm[k][2][:60]} gives {res[k]} expected {e}'
    return None


def run(tier, seed, replay=None):
    rep = lib.Report(PID, tier, seed)
    build = lib.Build().run()
    rep.proof = lib.compile_props(PID)
    rng = lib.rng_for(seed, PID)
    n = 120 if tier == 'quick' else 32000
    cases = [gen_case(rng, c) for c in range(n)]
    results = lib.run_sessions(cases)
    lib.std_checks(rep, results, oracle)
    for c in cases:
        if c['nontrivial']:
            rep.nontrivial(c['ops'])
        for o in c['ops']:
            rep.count(o.split()[0].strip('('))
    rep.evaluations = sum(len(c['expect']) for c in cases)
    rep.samples = [' '.join(c['ops']) for c in cases[:3]]
    return lib.finish(rep, build, level='proof', rule=RULE, assumptions=[
        'index lists are non-empty lists of valid original indices; trimming at or above the current index; distinct timestamps'])
