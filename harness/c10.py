"""C10 — reader is total and literals denote their values in every position."""
import lib
import gen

PID = 'C10'
RULE = ('(a) totality: random strings over the language alphabet and grammar-derived texts with random character mutations '
        '(length <= 200, nesting <= 64) through read_wal_sexpr and read_wal_sexprs: the outcome must be an expression or the '
        'documented ParseError, and a successful single-expression read must equal the one form read_wal_sexprs finds (whole '
        'input consumed); (b) integers of up to 300 bits in decimal/0x/0b, signed, at top level, inside lists, after quote, as @ '
        'offsets and slice bounds against Python int (oracle); decimal-point floats against float(); (c) strings over printable '
        'characters plus every supported escape against the intended text; booleans; (d) every expression with a minimal and '
        'with a random whitespace/comment layout (and a shebang line for programs). Everything is also run on the extracted Coq '
        'reader model. distinct = distinct texts; non-trivial = text longer than one token')


def mutate(rng, t):
    t = list(t)
    for _ in range(rng.randrange(1, 4)):
        if not t:
            break
        k = rng.randrange(len(t))
        r = rng.random()
        if r < 0.35:
            del t[k]
        elif r < 0.7:
            t.insert(k, rng.choice(gen.READER_ALPHABET))
        else:
            t[k] = rng.choice(gen.READER_ALPHABET)
    return ''.join(t)[:200]


def deep(rng):
    d = rng.randrange(1, 65)
    opens = [rng.choice('([{') for _ in range(d)]
    inner = rng.choice(['', 'a', '1 2', '"s"'])
    return ''.join(opens) + inner + ''.join(gen.CLOSE[o] for o in reversed(opens))


def run(tier, seed, replay=None):
    rep = lib.Report(PID, tier, seed)
    build = lib.Build().run()
    rep.proof = lib.compile_props(PID)
    rng = lib.rng_for(seed, PID)
    n = 400 if tier == 'quick' else 96000
    w = gen.WalText(rng)
    probes = []          # (kind, text, expectation or None)
    for _ in range(n):
        e = w.expr(rng.randrange(0, 5))
        t = gen.wal_render(e)
        if len(t) <= 200:
            probes.append(('valid', t, None))
            probes.append(('mutated', mutate(rng, t), None))
        probes.append(('random', ''.join(rng.choice(gen.READER_ALPHABET) for _ in range(rng.randrange(0, 40))), None))
        if len(t) <= 200:
            probes.append(('layout', gen.wal_render(e, gen.random_ws(rng)), t))
    for _ in range(n // 8):
        probes.append(('deep', deep(rng), None))
    # literals in every position
    for _ in range(n):
        txt, v = w.integer()
        emb = rng.choice(['top', 'list', 'quote', 'at', 'slice', 'bit', 'nested', 'comment', 'comment_list'])
        if emb == 'comment':
            # a comment glued to the literal, running to the end of the text
            probes.append(('int', f'{txt};the answer', lib.ser_py(v)))
        elif emb == 'comment_list':
            probes.append(('int', f'(a {txt};c\n)', f'( Y61 {lib.ser_py(v)} )'))
        elif emb == 'top':
            probes.append(('int', txt, lib.ser_py(v)))
        elif emb == 'list':
            probes.append(('int', f'(a {txt} "s")', f'( Y61 {lib.ser_py(v)} S73 )'))
        elif emb == 'quote':
            probes.append(('int', f"'{txt}", f'( O71756f7465 {lib.ser_py(v)} )'))
        elif emb == 'at':
            probes.append(('int', f'sig@{txt}', f'( O726576616c Y736967 {lib.ser_py(v)} )'))
        elif emb == 'slice':
            t2, v2 = w.integer(8)
            probes.append(('int', f'sig[{txt}:{t2}]', f'( O736c696365 Y736967 {lib.ser_py(v)} {lib.ser_py(v2)} )'))
        elif emb == 'bit':
            probes.append(('int', f'sig[{txt}]', f'( O736c696365 Y736967 {lib.ser_py(v)} )'))
        else:
            probes.append(('int', f"[f `(,{txt})]", f'( Y66 ( O7175617369 ( U {lib.ser_py(v)} ) ) )'.replace('O7175617369', 'O' + lib.hx('quasiquote'))))
    for _ in range(n // 2):
        ip = str(rng.randrange(0, 10 ** rng.randrange(1, 8)))
        fp = ''.join(rng.choice('0123456789') for _ in range(rng.randrange(0, 8)))
        sg = rng.choice(['', '-', '+'])
        txt = f'{sg}{ip}.{fp}'
        probes.append(('float', txt, lib.ser_py(float(txt))))
        probes.append(('float', f'(x {txt})', f'( Y78 {lib.ser_py(float(txt))} )'))
    for _ in range(n):
        txt, s = w.string()
        probes.append(('string', txt, lib.ser_py(s)))
        if rng.random() < 0.3:
            probes.append(('string', f'(print {txt} {txt})', f'( O7072696e74 {lib.ser_py(s)} {lib.ser_py(s)} )'))
    # shebang lines: only a text that begins with #! has its first line skipped (white space first is lexed as _INTER)
    for t in ['#!foo\n1', '\n#!foo\n1', ' #!foo\n1', '\t#!x\n1 2', '#!\n1', '  \n#!foo\n(a)', '#!a\n#!b\n1', '#!x', '#! \n']:
        probes.append(('random', t, None))
    for t, v in (('#t', True), ('#f', False), ('true', True), ('false', False)):
        probes.append(('bool', t, lib.ser_py(v)))
        probes.append(('bool', f'({t} x)', f'( {lib.ser_py(v)} Y78 )'))
    cases = []
    per = 40
    for k in range(0, len(probes), per):
        chunk = probes[k:k + per]
        cmds = []
        for kind, text, exp in chunk:
            cmds.append(['read', text])
            cmds.append(['reads', text])
            if kind == 'layout':
                cmds.append(['read', exp])
                cmds.append(['reads', '#!/usr/bin/wal -x\n' + text + rng.choice(['', '\n', ' ; end']) + '\n' + exp])
        cases.append({'id': len(cases), 'cmds': cmds, 'chunk': chunk})

    def oracle(case, impl):
        res = impl.get('results') or []
        k = 0
        for kind, text, exp in case['chunk']:
            if k + 1 >= len(res):
                return f'session stopped at {res[-1:]}'
            r1, rs = res[k], res[k + 1]
            k += 2
            for r in (r1, rs):
                if 'OTHER-EXCEPTION' in r or 'BADPARSEERROR' in r:
                    return f'reading {text!r} raised {r} instead of yielding an expression or ParseError'
            if r1.startswith('ok'):
                if not rs.startswith('ok') or lib.canon(rs) != lib.canon('ok ( ' + r1[3:] + ' )'):
                    return f'read_wal_sexpr({text!r}) = {r1[:200]} but read_wal_sexprs gives {rs[:200]} (whole input must be one form)'
            if kind in ('int', 'float', 'string', 'bool'):
                if lib.canon(r1) != lib.canon('ok ' + exp):
                    return f'literal text {text!r} reads as {r1[:300]} expected {exp[:300]}'
            if kind == 'layout':
                r3, r4 = res[k], res[k + 1]
                k += 2
                if r3 != r1:
                    return f'layout changes the expression: {text!r} reads {r1[:200]}, minimal layout {exp!r} reads {r3[:200]}'
                if r1.startswith('ok') and lib.canon(r4) != lib.canon('ok ( ' + r1[3:] + ' ' + r1[3:] + ' )'):
                    return f'program with shebang/comments/layout reads {r4[:200]} expected twice {r1[:200]}'
        return None

    results = lib.run_sessions(cases)
    lib.std_checks(rep, results, oracle)
    okc = 0
    for c in cases:
        for kind, text, exp in c['chunk']:
            rep.count(kind)
            if len(text.split()) > 1 or len(text) > 6:
                rep.nontrivial(text)
    rep.evaluations = len(probes)
    rep.samples = [p[1] for p in probes[:3]] + [p[1] for p in probes if p[0] == 'mutated'][:3]
    return lib.finish(rep, build, level='proof', rule=RULE, assumptions=[
        'ASCII text plus the section sign; nesting <= 64 (the implementation raises RecursionError near 190 levels), numerals below 4300 digits',
        'float literals are modelled for mantissas below 2^53 with at most 22 fractional digits; others are compared with float() only',
        'totality of the implementation (no exception other than ParseError) is decided by the differential run, not by a theorem'])
