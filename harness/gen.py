"""gen.py — generators shared by the property checks: VCD documents with an
independent denotation, CSV tables, simple traces for the evaluator properties."""
import re

ID_ALPHABET = '!"#$%&\'()*+,-./0123456789:;<=>?@ABCXZabcxz[\\]^_`{|}~'
WS = [' ', '\n', '\t', '  ', '\n\n', ' \n ', '\r\n']


def norm_name(s):
    s = re.sub(r'\[[0-9]+:[0-9]+\]', '', s)
    s = re.sub(r'\[([0-9]+)\]', r'<\1>', s)
    s = re.sub(r'\(([0-9]+)\)', r'<\1>', s)
    return s


def norm_scope(s):
    s = re.sub(r'\[([0-9]+)\]', r'<\1>', s)
    s = re.sub(r'\(([0-9]+)\)', r'<\1>', s)
    return s


def gen_id(rng, used):
    for _ in range(100):
        k = rng.choice([1, 1, 1, 2, 2, 3])
        s = ''.join(rng.choice(ID_ALPHABET) for _ in range(k))
        if s in used or s.startswith('$') and len(s) > 1:
            continue
        return s
    return 'id%d' % len(used)


def gen_word(rng):
    return rng.choice(['foo', 'x1', '$var', '$scope', 'b101', '#5', '1!', 'module', 'Icarus', '10.3',
                       '$upscope', '$timescale', '[3:0]', '$dumpvars'])


def gen_vcd_doc(rng, max_vars=10, max_ts=10, wide=True):
    """-> doc: {'header': [blocks...], 'dump': [items...]}"""
    names_used = set()
    ids = []
    vars_ = []          # (kind, width, id, name_token, extra_token or None, fullname)
    scopes_decl = []

    def mkname():
        base = rng.choice(['a', 'b', 'clk', 'data', 'q', 'valid', 'ready', 'cnt', 'x', 'sig_1', 'r'])
        return base + rng.choice(['', '', '', str(rng.randrange(10)), '_n', '_' + base])

    blocks = []
    # misc blocks in any order, around the scope tree
    misc = []
    if rng.random() < 0.7:
        misc.append(('misc', '$comment', [gen_word(rng) for _ in range(rng.randrange(0, 5))]))
    if rng.random() < 0.7:
        misc.append(('misc', '$date', [gen_word(rng) for _ in range(rng.randrange(0, 4))]))
    if rng.random() < 0.7:
        misc.append(('misc', '$version', [gen_word(rng) for _ in range(rng.randrange(0, 4))]))
    if rng.random() < 0.8:
        misc.append(('timescale', rng.choice([['1ns'], ['1', 'ns'], ['10ps'], ['100', 'us']])))
    rng.shuffle(misc)
    cut = rng.randrange(0, len(misc) + 1)
    blocks += misc[:cut]

    nvars = rng.randrange(1, max_vars + 1)
    path = []

    def emit_scope(depth):
        nonlocal nvars
        # some vars here
        n_here = rng.randrange(0, 4)
        for _ in range(n_here):
            if nvars <= 0:
                break
            emit_var()
        if depth < 4 and rng.random() < 0.6:
            for _ in range(rng.randrange(1, 3)):
                sname = rng.choice(['top', 'dut', 'u', 'core', 'mem', 'g']) + rng.choice(['', '', '[%d]' % rng.randrange(4), '(%d)' % rng.randrange(3), str(rng.randrange(3))])
                blocks.append(('scope', rng.choice(['module', 'begin', 'struct']), sname))
                path.append(norm_scope(sname))
                scopes_decl.append('.'.join(path))
                emit_scope(depth + 1)
                path.pop()
                blocks.append(('upscope',))
                if rng.random() < 0.2:
                    blocks.append(('misc', '$comment', [gen_word(rng) for _ in range(rng.randrange(0, 3))]))

    def emit_var():
        nonlocal nvars
        for _ in range(50):
            nm = mkname()
            extra = None
            width = rng.choice([1, 1, 1, 2, 3, 4, 8, 9, 16, 32, 33, 64, 65, 100, 128, 200]) if wide else rng.choice([1, 1, 2, 4, 8])
            tok = nm
            r = rng.random()
            if r < 0.15:
                tok = nm + '[%d]' % rng.randrange(8)
            elif r < 0.25:
                tok = nm + '(%d)' % rng.randrange(8)
            elif r < 0.40 and width > 1:
                tok = nm + '[%d:0]' % (width - 1)
            elif r < 0.55 and width > 1:
                extra = '[%d:0]' % (width - 1)
            elif r < 0.60:
                tok = nm + '[%d]' % rng.randrange(4) + '[%d:0]' % (width - 1)
            full = '.'.join(path + [norm_name(tok)])
            if full in names_used:
                continue
            names_used.add(full)
            break
        else:
            return
        # shared id code?
        if ids and rng.random() < 0.2:
            idc, w0 = rng.choice(ids)
            width = w0
        else:
            idc = gen_id(rng, set(i for i, _ in ids))
            ids.append((idc, width))
        blocks.append(('var', rng.choice(['wire', 'reg', 'integer', 'logic']), width, idc, tok, extra))
        vars_.append((full, idc, width))
        nvars -= 1

    emit_scope(0)
    while nvars > 0 and (not vars_ or rng.random() < 0.5):
        emit_var()
    blocks += misc[cut:]
    blocks.append(('enddefs',))

    # dump section
    dump = []
    idlist = ids

    def change():
        idc, w = rng.choice(idlist)
        if w == 1 and rng.random() < 0.9:
            return ('scalar', rng.choice('01xzXZ01'), idc)
        r = rng.random()
        if r < 0.55:
            v = rng.getrandbits(w)
            bits = format(v, 'b')
            if rng.random() < 0.5:
                bits = bits.rjust(w, '0')
        elif r < 0.75:
            bits = ''.join(rng.choice('01xz') for _ in range(rng.randrange(1, w + 1)))
        elif r < 0.85:
            bits = rng.choice(['x', 'z', 'X', 'Z', 'xX', '0', '1'])
        else:
            bits = format((1 << w) - 1, 'b')
        return ('vector', bits, idc)

    if idlist:
        # changes before the first timestamp
        for _ in range(rng.randrange(0, 3)):
            dump.append(change())
        t = rng.randrange(0, 5)
        nts = rng.randrange(1, max_ts + 1)
        for k in range(nts):
            dump.append(('time', t))
            if k == 0 and rng.random() < 0.6:
                dump.append(('kw', '$dumpvars'))
                for idc, w in idlist:
                    if rng.random() < 0.8:
                        dump.append(('scalar', rng.choice('01x'), idc) if w == 1 else ('vector', rng.choice(['x', '0', format(rng.getrandbits(w), 'b')]), idc))
                dump.append(('kw', '$end'))
            for _ in range(rng.randrange(0, 5)):
                dump.append(change())
            if rng.random() < 0.1:
                dump.append(('comment', [gen_word(rng) for _ in range(rng.randrange(0, 3))]))
            if rng.random() < 0.05:
                dump.append(('kw', rng.choice(['$dumpall', '$dumpoff', '$dumpon', '$end'])))
            t += rng.choice([0, 1, 1, 5, 10, 1000, 10 ** 12]) if rng.random() < 0.1 else rng.choice([1, 2, 5, 10])
    return {'blocks': blocks, 'dump': dump, 'vars': vars_, 'scopes': scopes_decl}


def vcd_tokens(doc):
    toks = []
    for b in doc['blocks']:
        k = b[0]
        if k == 'misc':
            toks += [b[1]] + [w for w in b[2] if w != '$end'] + ['$end']
        elif k == 'timescale':
            toks += ['$timescale'] + b[1] + ['$end']
        elif k == 'scope':
            toks += ['$scope', b[1], b[2], '$end']
        elif k == 'upscope':
            toks += ['$upscope', '$end']
        elif k == 'var':
            toks += ['$var', b[1], str(b[2]), b[3], b[4]] + ([b[5]] if b[5] else []) + ['$end']
        elif k == 'enddefs':
            toks += ['$enddefinitions', '$end']
    for d in doc['dump']:
        k = d[0]
        if k == 'time':
            toks.append('#%d' % d[1])
        elif k == 'scalar':
            toks.append(d[1] + d[2])
        elif k == 'vector':
            toks += ['b' + d[1], d[2]]
        elif k == 'kw':
            toks.append(d[1])
        elif k == 'comment':
            toks += ['$comment'] + [w for w in d[1] if w != '$end'] + ['$end']
    return toks


def layout(toks, rng, simple=False):
    if simple:
        return '\n'.join(toks) + '\n'
    out = rng.choice(['', '', '\n', '  '])
    for t in toks:
        out += t + rng.choice(WS)
    return out


def to_value(bits):
    try:
        return int(bits, 2)
    except ValueError:
        return bits


def denote_vcd(doc):
    """independent reading of the document (the property's statement)"""
    cur = {}
    for _, idc, _w in doc['vars']:
        cur[idc] = 'x'
    rows = []
    ts = []
    for d in doc['dump']:
        if d[0] == 'time':
            ts.append(d[1])
            rows.append(None)
        elif d[0] in ('scalar', 'vector'):
            if d[2] in cur:
                cur[d[2]] = d[1]
        if rows:
            rows[-1] = dict(cur)
    # rows[i] must reflect all changes up to the next time token
    values = {}
    widths = {}
    for full, idc, w in doc['vars']:
        values[full] = [to_value(r[idc]) for r in rows]
    # declared width: last declaration of the id code wins (generator keeps them equal)
    lastw = {}
    for full, idc, w in doc['vars']:
        lastw[idc] = w
    for full, idc, w in doc['vars']:
        widths[full] = lastw[idc]
    return {'signals': [v[0] for v in doc['vars']], 'scopes': list(doc['scopes']), 'ts': ts,
            'values': values, 'widths': widths}


# ------------------------------------------------------------------ simple traces for evaluator properties
def simple_trace(rng, n=None, scopes=None, extra_signals=(), wide=False):
    """a regular trace: scopes top, top.u (optional), signals with int values at every index.
    -> (vcd_text, info) with info = {'n':…, 'signals': {name: [values]}, 'widths': {...}, 'ts': [...]}"""
    n = n if n is not None else rng.randrange(1, 9)
    sig_specs = []
    tree = scopes if scopes is not None else rng.choice([
        {'top': ['clk', 'a', 'b']},
        {'top': ['clk', 'a', 'b'], 'top.u': ['a', 'q', 'r_valid', 'r_ready', 'w_valid', 'w_ready']},
        {'top': ['clk', 'd<0>', 'd<1>'], 'top.u': ['x', 'y'], 'top.u.v': ['x']},
    ])
    lines = ['$timescale 1ns $end']
    idn = 0
    order = sorted(tree)
    opened = []
    sigs = {}
    widths = {}
    ids = {}
    for sc in order:
        parts = sc.split('.') if sc else []
        while opened and opened != parts[:len(opened)]:
            lines.append('$upscope $end')
            opened.pop()
        while len(opened) < len(parts):
            lines.append('$scope module %s $end' % parts[len(opened)])
            opened.append(parts[len(opened)])
        for s in list(tree[sc]) + [e for e in extra_signals if e[0] == sc]:
            if isinstance(s, tuple):
                s = s[1]
            w = 1 if s in ('clk',) or s.endswith(('valid', 'ready')) else rng.choice([1, 4, 8] if not wide else [1, 8, 70])
            idc = chr(33 + idn)
            idn += 1
            full = (sc + '.' if sc else '') + s
            tok = s.replace('<', '[').replace('>', ']')
            lines.append('$var wire %d %s %s $end' % (w, idc, tok))
            widths[full] = w
            ids[full] = idc
            if s == 'clk':
                sigs[full] = [i % 2 for i in range(n)]
            else:
                v = rng.getrandbits(w)
                col = []
                for i in range(n):
                    if rng.random() < 0.5:
                        v = rng.getrandbits(w)
                    col.append(v)
                sigs[full] = col
    while opened:
        lines.append('$upscope $end')
        opened.pop()
    lines.append('$enddefinitions $end')
    ts = []
    t = 0
    for i in range(n):
        lines.append('#%d' % t)
        ts.append(t)
        for full, col in sigs.items():
            if i == 0 or col[i] != col[i - 1]:
                w = widths[full]
                lines.append(('%d%s' % (col[i], ids[full])) if w == 1 else 'b%s %s' % (format(col[i], 'b'), ids[full]))
        t += rng.choice([1, 5, 10])
    return '\n'.join(lines) + '\n', {'n': n, 'signals': sigs, 'widths': widths, 'ts': ts,
                                     'scopes': [s for s in order if s]}


# ------------------------------------------------------------------ CSV
def gen_csv(rng):
    ncols = rng.randrange(1, 7)
    names = []
    seen = set()
    while len(names) < ncols:
        base = rng.choice(['Channel 0', 'Channel 1', 'clk', 'data', 'bus', 'D 7', 'sig a', 'x', 'CS n', 'MOSI',
                           'Timer', 'Time valid', 'time', 'Time', 'Time [ms]', 'TIME s',      # only the exact text "Time [s]" is the time column
                           ' Chan 0', 'Chan  0', 'clk ', '  x', 'a   b', ' Time [s]', 'Time [s] '])   # every space becomes one underscore, also leading, trailing, repeated
        sfx = rng.choice(['', '', '', '[%d]' % rng.randrange(8), '(%d)' % rng.randrange(4), '[7:0]', ' [3:0]', '[2][3:0]'])
        nm = base + sfx
        nn = norm_name(nm.replace(' ', '_'))
        if nn in seen:
            continue
        seen.add(nn)
        names.append(nm)
    tpos = rng.randrange(0, ncols + 1)
    header = names[:tpos] + ['Time [s]'] + names[tpos:]
    nrows = rng.randrange(1, 13)
    digits = rng.randrange(0, 10)
    t_ns = rng.randrange(0, 3) * 10 ** rng.choice([0, 3, 9])
    small_steps = rng.random() < 0.4      # stamps like 1, 2, 10, 11 that look like samples
    rows = []
    ts = []
    cols = {norm_name(n.replace(' ', '_')): [] for n in names}
    for _ in range(nrows):
        # time with `digits` fractional digits: value is a multiple of 10^(9-digits) ns
        unit = 10 ** (9 - digits)
        if rows and rng.random() < 0.15:
            pass        # the same time stamp as the row before: still a row, hence an index, of its own
        else:
            t_ns += unit * (rng.randrange(1, 3) if small_steps else rng.randrange(1, 50))
        t_ns -= t_ns % unit
        ip, fp = divmod(t_ns, 10 ** 9)
        if digits == 0:
            cell_t = str(ip) + rng.choice(['', '.'])
        else:
            cell_t = '%d.%s' % (ip, ('%09d' % fp)[:digits])
        ts.append(t_ns)
        cells = []
        for n in names:
            c = rng.choice(['0', '1', 'x', '0', '1', format(rng.getrandbits(8), 'b'), '1x0', format(rng.getrandbits(70), 'b'), '0011'])
            if rng.random() < 0.15:
                c = cell_t.rstrip('.')       # a sample whose text equals this row's time stamp (columns are told apart by position)
            cells.append(c)
            cols[norm_name(n.replace(' ', '_'))].append(to_value(c))
        rows.append(cells[:tpos] + [cell_t] + cells[tpos:])
    text = '\n'.join(','.join(r) for r in [header] + rows)
    text += rng.choice(['', '\n', '\n\n'])
    den = {'signals': [norm_name(n.replace(' ', '_')) for n in names], 'scopes': [], 'ts': ts, 'values': cols,
           'widths': {norm_name(n.replace(' ', '_')): 1 for n in names}}
    return text, den


# ------------------------------------------------------------------ trace-reading fragment
class Frag:
    """expression generator over the signals of loaded traces.
    infos: {tid: info}; qualified names are used when more than one trace is loaded."""

    def __init__(self, rng, infos, vsigs=(), funcs=(), allow_at=True):
        self.rng = rng
        self.infos = infos
        self.multi = len(infos) > 1
        self.vsigs = list(vsigs)        # names of virtual signals (single trace only)
        self.funcs = list(funcs)        # (name, arity)
        self.allow_at = allow_at
        self.allow_scoped = True
        self.N = max(i['n'] for i in infos.values())

    def sig(self):
        tid = self.rng.choice(sorted(self.infos))
        name = self.rng.choice(sorted(self.infos[tid]['signals']))
        return (tid + '^' + name) if self.multi else name

    def special(self):
        s = self.rng.choice(['INDEX', 'TS', 'MAX-INDEX'])
        if self.multi:
            return self.rng.choice(sorted(self.infos)) + '^' + s
        return s

    def scoped(self):
        """(in-scope S ~n) or (in-group G #n) denoting an existing signal"""
        tid = self.rng.choice(sorted(self.infos))
        name = self.rng.choice(sorted(self.infos[tid]['signals']))
        pre = (tid + '^') if self.multi else ''
        if '.' in name and self.rng.random() < 0.6:
            sc, leaf = name.rsplit('.', 1)
            return '(in-scope "%s%s" ~%s)' % (pre, sc, leaf)
        cut = self.rng.randrange(1, len(name))
        while name[cut - 1] == '<' or name[cut:][0] in '<>0123456789':
            cut = self.rng.randrange(1, len(name))
            if cut == 1:
                break
        g, leaf = name[:cut], name[cut:]
        if not re.match(r'^[a-zA-Z_.][\w.<>]*$', leaf):
            return pre + name
        return '(in-group "%s%s" #%s)' % (pre, g, leaf)

    def atom(self):
        r = self.rng.random()
        if r < 0.45:
            return self.sig()
        if r < 0.6:
            return self.special()
        if r < 0.7 and self.vsigs:
            return self.rng.choice(self.vsigs)
        if r < 0.8 and self.allow_scoped:
            return self.scoped()
        return str(self.rng.randrange(0, 4))

    def expr(self, depth=3):
        rng = self.rng
        if depth <= 0 or rng.random() < 0.25:
            return self.atom()
        r = rng.random()
        if r < 0.30:
            op = rng.choice(['+', '-', '*', 'bor', 'band', 'bxor'])
            return '(%s %s %s)' % (op, self.expr(depth - 1), self.expr(depth - 1))
        if r < 0.45:
            op = rng.choice(['=', '!=', '>', '<', '>=', '<='])
            return '(%s %s %s)' % (op, self.expr(depth - 1), self.expr(depth - 1))
        if r < 0.55:
            op = rng.choice(['&&', '||'])
            return '(%s %s %s)' % (op, self.expr(depth - 1), self.expr(depth - 1))
        if r < 0.60:
            return '(! (= %s %s))' % (self.expr(depth - 1), self.expr(depth - 1))
        if r < 0.68:
            return '(if %s %s %s)' % (self.expr(depth - 1), self.expr(depth - 1), self.expr(depth - 1))
        if r < 0.85 and self.allow_at:
            k = rng.choice([-2, -1, 1, 1, 2, 3])
            inner = self.expr(depth - 1)
            if rng.random() < 0.5 or not re.match(r'^[A-Za-z_][\w.<>^-]*$|^\(.*\)$', inner):
                return '(reval %s %d)' % (inner, k)
            return '%s@%d' % (inner, k)
        if r < 0.95 and self.funcs:
            name, ar = rng.choice(self.funcs)
            return '(%s%s)' % (name, ''.join(' ' + self.expr(depth - 1) for _ in range(ar)))
        return '(slice %s %d)' % (self.sig(), rng.randrange(0, 3))

    def func_defs(self):
        """definitions of user functions reading signals: returns list of texts and registers them"""
        defs = []
        s1, s2 = self.sig(), self.sig()
        defs.append('(defun rd [] (+ %s %s))' % (s1, self.special()))
        defs.append('(defun pick [x] (if (> x 0) %s (- 0 x)))' % s2)
        defs.append('(define nxt (fn [] (reval %s 1)))' % s1)
        self.funcs = [('rd', 0), ('pick', 1), ('nxt', 0)]
        return defs


# ------------------------------------------------------------------ WAL text generator (reader grammar)
READER_ALPHABET = list('abcxyz019 \t\n()[]{}\'`,@~#"\;:.+-*/<>=!&|_$%^?') + ['0x', '0b', '1.5', '#t', 'true', ',@', '&&', '§']
OPERATOR_WORDS = ['+', '-', '*', '/', '&&', '||', '=', '!=', '>', '<', '>=', '<=', '!', '**', 'if', 'do', 'let', 'define', 'list',
                  'print', 'step', 'find', 'quote', 'reval', 'slice', 'resolve-scope', 'fn', 'set', 'in-scope']
SYMBOLS = ['a', 'x1', 'foo', 'top.u.sig', 'd<3>', 'a_b', '_t', '.dot', 'sig-n', 'a+b', 'x->y', 'a:b', 'a,b', 'q?', 'p!', 'n%m',
           'v$1', 'w|z', 'trueish', 'falsey', 'iff', 'T', 'a=b', 'u~v', 'c^d', 'tid^top.a', 'x§y']


class WalText:
    """expressions as token trees: ('atom', text) | ('list', open, [elems]) | ('prefix', p, e) | ('bit', e, i) |
    ('slice', e, h, l) | ('at', e, k)"""

    def __init__(self, rng, escaped=True, floats=True):
        self.rng = rng
        self.escaped = escaped
        self.floats = floats

    def integer(self, bits=None):
        rng = self.rng
        bits = bits if bits is not None else rng.choice([1, 3, 8, 16, 31, 32, 33, 53, 64, 65, 128, 200, 300])
        v = rng.getrandbits(bits)
        base = rng.choice(['dec', 'dec', 'hex', 'bin', 'neg', 'plus'])
        if base == 'dec':
            return str(v), v
        if base == 'hex':
            t = format(v, rng.choice(['x', 'X']))
            return '0x' + rng.choice(['', '0', '00']) + t, v
        if base == 'bin':
            return '0b' + rng.choice(['', '0']) + format(v, 'b'), v
        if base == 'neg':
            return '-' + str(v), -v
        return '+' + str(v), v

    def string(self):
        rng = self.rng
        n = rng.randrange(0, 12)
        s = ''
        txt = '"'
        for _ in range(n):
            r = rng.random()
            if r < 0.6:
                c = chr(rng.randrange(32, 127))
            else:
                c = rng.choice(['\n', '\t', '\\', '"', "'", '\r', '\a', '\b', '\f', '\v', '\x01', 'A', 'BSQ', 'QBS'])
            if c in ('BSQ', 'QBS'):
                # a backslash directly before / after a double quote
                two = '\\"' if c == 'BSQ' else '"\\'
                s += two
                txt += '\\\\\\"' if c == 'BSQ' else '\\"\\\\'
                continue
            s += c
            if c == '"':
                txt += '\\"'
            elif c == '\\':
                txt += '\\\\'
            elif c == '\n':
                txt += '\\n'
            elif c == '\t':
                txt += rng.choice(['\\t', '\t'])
            elif c == '\r':
                txt += '\\r'
            elif c == "'":
                txt += rng.choice(["'", "\\'"])
            elif c in '\a\b\f\v':
                txt += {'\a': '\\a', '\b': '\\b', '\f': '\\f', '\v': '\\v'}[c]
            elif c == '\x01':
                txt += rng.choice(['\\x01', '\\001'])
            elif c == 'A' and rng.random() < 0.5:
                txt += rng.choice(['\\x41', '\\101'])
            else:
                txt += c
        return txt + '"', s

    def atom(self):
        rng = self.rng
        r = rng.random()
        if r < 0.30:
            return ('atom', rng.choice(SYMBOLS))
        if r < 0.50:
            return ('atom', self.integer()[0])
        if r < 0.58 and self.floats:
            if rng.random() < 0.25:
                # a double with 16 or 17 significant digits, written the way Python prints it (positional in this range)
                t = repr(rng.uniform(-1000.0, 1000.0) if rng.random() < 0.7 else rng.random() / 3)
                return ('atom', t if 'e' not in t else '0.30000000000000004')
            return ('atom', rng.choice(['1.5', '-0.25', '3.', '0.0', '10.125', '+2.5', '123456.789', '0.1', '-7.']))
        if r < 0.66:
            return ('atom', rng.choice(['#t', '#f', 'true', 'false']))
        if r < 0.78:
            return ('atom', self.string()[0])
        if r < 0.90:
            return ('atom', rng.choice(OPERATOR_WORDS))
        if r < 0.95:
            return ('prefix', rng.choice(['~', '#']), ('atom', rng.choice(['clk', 'a.b', 'valid', 'true', 'tt', 'ready<1>', 'load'])))
        if self.escaped:
            return ('atom', '\\' + rng.choice(['foo', 'a(b', 'x[1]', '1abc', 'q"r']))
        return ('atom', 'esc')

    def expr(self, depth):
        rng = self.rng
        if depth <= 0 or rng.random() < 0.3:
            return self.atom()
        r = rng.random()
        if r < 0.50:
            return ('list', rng.choice('(([{'), [self.expr(depth - 1) for _ in range(rng.randrange(0, 5))])
        if r < 0.68:
            return ('prefix', rng.choice(["'", '`', ',', ',@']), self.expr(depth - 1))
        if r < 0.78:
            return ('bit', self.postfixable(depth - 1), self.expr(depth - 1))
        if r < 0.86:
            return ('slice', self.postfixable(depth - 1), self.expr(depth - 1), self.expr(depth - 1))
        return ('at', self.postfixable(depth - 1), self.postfixable(depth - 1))

    def postfixable(self, depth):
        """an operand for e[i] / e@k that does not itself end in something the postfix would re-attach to"""
        rng = self.rng
        r = rng.random()
        if r < 0.5:
            return ('atom', rng.choice(['a', 'top.sig', 'd<3>', 'x1', '5', '0x1f', '-3']))
        if r < 0.8:
            return ('list', rng.choice('(['), [self.expr(depth - 1) for _ in range(rng.randrange(1, 4))])
        return ('bit', ('atom', 'v'), ('atom', str(rng.randrange(8))))


CLOSE = {'(': ')', '[': ']', '{': '}'}


def wal_render(e, ws=None):
    """ws: None -> canonical single spaces; callable -> returns separator / optional padding strings"""
    sep = ws if ws else (lambda must: ' ' if must else '')
    k = e[0]
    if k == 'atom':
        return e[1]
    if k == 'list':
        if not e[2]:
            return e[1] + CLOSE[e[1]]
        parts = [wal_render(x, ws) for x in e[2]]
        out = e[1] + sep(False)
        for i, p in enumerate(parts):
            out += p
            if i < len(parts) - 1:
                # an escaped identifier swallows everything up to white space: it always needs a separator
                out += sep(True)
        last = parts[-1]
        if needs_space_before_close(e[2][-1]):
            out += ' '
        return out + sep(False) + CLOSE[e[1]]
    if k == 'prefix':
        if e[1] in ('~', '#'):
            return e[1] + wal_render(e[2], ws)
        return e[1] + sep(False) + wal_render(e[2], ws)
    if k == 'bit':
        return wal_render(e[1], ws) + '[' + sep(False) + wal_render(e[2], ws) + (' ' if needs_space_before_close(e[2]) else sep(False)) + ']'
    if k == 'slice':
        h = wal_render(e[2], ws)
        # a symbol directly before ':' would swallow the colon
        return wal_render(e[1], ws) + '[' + sep(False) + h + (' ' if ends_symbolic(e[2]) or needs_space_before_close(e[2]) else sep(False)) + ':' + sep(False) + \
            wal_render(e[3], ws) + (' ' if needs_space_before_close(e[3]) else sep(False)) + ']'
    if k == 'at':
        return wal_render(e[1], ws) + '@' + wal_render(e[2], ws)
    raise ValueError(k)


def last_atom(e):
    k = e[0]
    if k == 'atom':
        return e[1]
    if k == 'prefix':
        return last_atom(e[2])
    if k == 'at':
        return last_atom(e[2])
    return None


def needs_space_before_close(e):
    t = last_atom(e)
    return t is not None and t.startswith('\\')


def ends_symbolic(e):
    t = last_atom(e)
    return t is not None and (t[0].isalpha() or t[0] in '_.\\' or t in ('#t', '#f'))


def random_ws(rng):
    def f(must):
        r = rng.random()
        if not must and r < 0.6:
            return ''
        return rng.choice([' ', '  ', '\n', '\t', ' \n ', ' ; comment (\n', '\n;; c "x\n ', '\r\n', ' \f '])
    return f
