"""C18 — CSV trace fidelity."""
import lib
import gen
from c01 import expect_dump

PID = 'C18'
RULE = ('each evaluation is one generated CSV table (time column in any position, 1..6 signal columns with spaces/brackets in '
        'their names, 1..12 rows, 0..9 fractional digits, cells 0/1/x/multi-bit) loaded through Wal.load and observed through '
        'SIGNALS, MAX-INDEX, TS and every signal at every index; compared with an independent denotation and with the '
        'extracted Coq parser. distinct = distinct texts; non-trivial = every generated table (>= 1 column, >= 1 row)')

MALFORMED = ['', 'a,b\n1,2', 'Time [s],a\nx,1', 'Time [s],a\n1.5.2,1', 'Time [s],a\n1,0,1', 
             'a,Time [s]\n1', 'Time [s],a\n-1,0']


def run(tier, seed, replay=None):
    rep = lib.Report(PID, tier, seed)
    build = lib.Build().run()
    rep.proof = lib.compile_props(PID)
    rng = lib.rng_for(seed, PID)
    n = 200 if tier == 'quick' else 64000
    cases = []
    for c in range(n):
        text, den = gen.gen_csv(rng)
        cases.append({'id': c, 'cmds': [['file', 't.csv', text], ['load', 't.csv', 'DEFAULT'], ['dump', 'DEFAULT']],
                      'expect': expect_dump(den), 'text': text})
    for t in MALFORMED:
        cases.append({'id': len(cases), 'cmds': [['file', 't.csv', t], ['load', 't.csv', 'DEFAULT']],
                      'expect': None, 'text': t})

    def oracle(case, impl):
        if case['expect'] is None:
            return None
        res = impl.get('results') or []
        if len(res) < 3:
            return 'load or observation failed: ' + repr(res[-1:])[:200]
        if lib.canon(res[2]) != lib.canon(case['expect']):
            return 'observed %s expected %s' % (res[2][:400], case['expect'][:400])
        return None

    results = lib.run_sessions(cases)
    lib.std_checks(rep, results, oracle)
    for case in cases:
        if case['expect']:
            rep.nontrivial(case['text'])
        rep.count('rows=%d' % case['text'].count('\n'))
    rep.samples = [c['text'][:300] for c in cases[:3]]
    return lib.finish(rep, build, level='proof', rule=RULE, assumptions=[
        'cells without comma/newline; distinct normalised headers; at least one row; line delimiter \\n; at most 9 fractional digits'])
