"""C07 — static variable resolution never changes program behaviour."""
import itertools
import lib
import corecalc as cc

PID = 'C07'
RULE = ('each evaluation is one program run twice on fresh interpreters: with the resolve pass (expand->optimize->resolve->eval) '
        'and with resolve replaced by the identity at every call site (Wal.eval, eval, eval-file); result, printed output, '
        'final values of the global variables and trace positions must agree (oracle); the resolved run is also compared with '
        'the extracted Coq model and the core programs with the reference interpreter. Programs: binder chains of depth 1..5 '
        '(let/fn/inner define x {a,b}, with shadowing) around a use or assignment (exhaustive in thorough, sampled in quick), '
        'random core programs, programs using stdlib macros, map/fold callbacks, eval of quoted code, recursion, and user macros that use an argument at two frame depths. '
        'distinct = distinct program texts; non-trivial = a use or assignment below at least one binder')

PROBE = "(list (if (defined? 'a) a 'undef) (if (defined? 'b) b 'undef) (if (defined? 'c) c 'undef) (if (defined? 'cnt) cnt 'undef))"


def chains(depth):
    binders = ['let a', 'let b', 'fn a', 'fn b', 'def c']
    bottoms = ['a', 'b', '(set [a 9])', '(set [b 9])', '(set [a (+ a b)] [b 7])', '(do (set [c 5]) c)']
    for seq in itertools.product(binders, repeat=depth):
        for bot in bottoms:
            if 'c' in bot and 'def c' not in seq:
                continue
            body = bot
            k = 0
            for b in reversed(seq):
                k += 1
                kind, n = b.split()
                if kind == 'let':
                    body = f'(let ([{n} {k}0]) {body})'
                elif kind == 'fn':
                    body = f'((fn [{n}] {body}) {k}1)'
                else:
                    body = f'((fn [] (define c {k}2) {body}))'
            yield f'(do (define a 1) (define b 2) (list {body} a b))'


MACRO_SNIPPETS = [
    "(let ([acc 0]) (for/list [x '(1 2 3)] (set [acc (+ acc x N)])) acc)",
    "(fold (fn [s x] (+ s x N)) 0 '(1 2 3))",
    "(map (fn [x] (set [cnt (+ cnt 1)]) (+ x cnt N)) '(1 2))",
    "(do (inc cnt) cnt)",
    "(do (when (> N 0) (set [cnt (+ cnt N)])) cnt)",
    "(cond [(> N 2) (set! cnt 7)] [(> N 0) (set! cnt 8)] [else 9])",
    "(let ([k N]) (defun loc [y] (+ y k cnt)) (loc 2))",
    "(do (define rec (fn [i] (if (< i 1) N (+ i (rec (- i 1)))))) (rec 3))",
    "(eval '(+ cnt 1))",
    "(eval `(set [cnt (+ cnt ,N)]))",
    "(let ([v 3]) (eval '(set [cnt (+ cnt 1)])) (+ v cnt))",
    "(sum (for/list [x (range 3)] (* x N)))",
    "(filter (fn [x] (> x N)) '(0 1 2 3 4))",
    "(for [x '(1 2)] (set [cnt (+ cnt (* x N))]))",
    "(do (until (> cnt 3) (inc cnt)) cnt)",
    "(unless (= N 0) (dec cnt) cnt)",
    "(partition (fn [v] (> v N)) '(1 4 2 5))",
    "(reverse (list N cnt 3))",
    "(let ([f (fn [] (set [cnt (+ cnt 1)]))]) (f) (f) cnt)",
    "(let ([bump (fn [] (set [cnt (+ cnt N)]))]) (let ([z 1]) (bump)) cnt)",
]


# user macros that use an argument at two different frame depths (the expansion inserts the same argument in both places):
# (definition, programs)
USER_MACROS = [
    ("(defmacro plusd [e] `(+ ,e (let ([k 2]) (* k ,e))))",
     ["(do (define a 100) (let ([a 5]) (plusd a)))", "(let ([y 5]) (plusd y))", "((fn [a] (plusd a)) 4)", "(do (define a 3) (plusd a))"]),
    ("(defmacro twice [e] `(list ,e ((fn [q] (+ q ,e)) 1)))",
     ["(do (define b 2) (let ([b 7]) (twice b)))", "(let ([z 1]) (let ([w 2]) (twice (+ z w))))"]),
    ("(defmacro setin [v] `(do (set [,v (+ ,v 1)]) (let ([z 0]) (set [,v (+ ,v 10)])) ,v))",
     ["(do (define a 1) (let ([a 5]) (setin a)))", "(do (define a 1) (setin a))", "(do (define a 1) (list (let ([a 5]) (setin a)) a))"]),
    ("(defmacro deep3 [e] `(list ,e (let ([p 1]) (list ,e (let ([r 2]) ,e)))))",
     ["(do (define a 9) (let ([a 5]) (deep3 a)))", "((fn [a] (let ([b a]) (deep3 (+ a b)))) 3)"]),
]


def macro_prog(rng):
    used = set()

    def nest(depth):
        if depth == 0 or rng.random() < 0.3:
            n = rng.choice(['1', '2', 'a', 'b', 'p', '(+ a 1)'])
            while True:
                sn = rng.choice(MACRO_SNIPPETS)
                if '(define ' in sn or '(defun ' in sn:
                    if sn in used:
                        continue        # a name defined twice in one scope is refused up front (allowed by the property)
                    used.add(sn)
                return sn.replace('N', n)
        k = rng.choice(['let', 'fn', 'do', 'if', 'list'])
        if k == 'let':
            return '(let ([%s %s]) %s)' % (rng.choice(['a', 'b', 'p', 'q']), nest(depth - 1), nest(depth - 1))
        if k == 'fn':
            return '((fn [%s] %s) %s)' % (rng.choice(['a', 'p', 'q']), nest(depth - 1), nest(depth - 1))
        if k == 'do':
            return '(do %s %s)' % (nest(depth - 1), nest(depth - 1))
        if k == 'if':
            return '(if (> cnt %d) %s %s)' % (rng.randrange(4), nest(depth - 1), nest(depth - 1))
        return '(list %s %s)' % (nest(depth - 1), nest(depth - 1))
    return '(do (define a 1) (define b 2) (define p 3) (define cnt 0) %s)' % ' '.join(nest(rng.randrange(1, 4)) for _ in range(rng.randrange(1, 4)))


def run(tier, seed, replay=None):
    rep = lib.Report(PID, tier, seed)
    build = lib.Build().run()
    rep.proof = lib.compile_props(PID)
    rng = lib.rng_for(seed, PID)
    texts = []
    allch = [t for d in range(1, 6) for t in chains(d)]
    if tier == 'quick':
        texts += [('chain', t) for t in rng.sample(allch, 400)]
    else:
        texts += [('chain', t) for t in allch]
        rep.extra['exhaustive_binder_chains_depth_le5'] = len(allch)
    g = cc.Gen(rng)
    nrand = 150 if tier == 'quick' else 6000
    for _ in range(nrand):
        prog = g.program(rng.choice([2, 3, 4]))
        t = cc.render(prog)
        if "'(define" in t:
            continue          # run-time eval of code that defines: outside the resolvable class (DESIGN §6 C07)
        texts.append(('core', t))
    for _ in range(nrand):
        texts.append(('macro', macro_prog(rng)))
    # binder shapes that are always run: shadowing let initialisers, define after use in a function body
    texts += [('shadowing', cc.render(p)) for p in cc.shadowing_programs()]
    # one name bound at three levels, used or assigned after the innermost scope has ended
    for t in ["(do (define x 1) (let ([x 10]) (map (fn [x] (+ x 1)) '(1 2)) (set [x (+ x 5)]) (list x)))",
              "(do (define x 1) (list (let ([x 10]) ((fn [x] x) 3) (list x (let ([x 20]) x) x)) x))",
              "(do (define a 1) (list (let ([a 10]) (let ([a 20]) a) (set [a (+ a 1)]) a) a))",
              "(do (define a 1) (define mk (fn [a] (let ([a (+ a 1)]) a) (fn [] (set [a (+ a 1)]) a))) (define c (mk 5)) (list (c) (c) a))",
              "(do (define b 2) ((fn [b] (let ([b 7]) b) (set [b (* b 2)]) b) 4))",
              "(do (define b 2) (list (let ([b 3]) (let ([q 0]) (let ([b 4]) b)) (set [b 9]) b) b))"]:
        texts.append(('threelevel', t))
    # a variadic parameter (fn args ...) is a binder like any other: it shadows an outer variable of the same name,
    # and only that name (an outer one-letter variable whose letter occurs in it is still the outer one)
    for t in ["(do (define items 7) (define s 5) (list ((fn items (length items)) 1 2 3) ((fn items (set [s 9]) (length items)) 1 2) s items))",
              "(do (define args 1) (define a 2) (define r 3) (list ((fn args (set [a 20]) (set [r (+ r 30)]) (first args)) 4 5) a r args))",
              "(do (define xs 1) (define x 2) (define f (fn xs (set [x (+ x 1)]) (list x (length xs)))) (list (f) (f 1 2) x xs))",
              "(do (define b 2) (define ab 3) (let ([a 1]) ((fn ab (set [a (+ a 1)] [b (+ b 1)]) (list a b ab)) 9)))"]:
        texts.append(('variadic', t))
    pre_of = {}
    for mdef, progs in USER_MACROS:
        for t in progs:
            texts.append(('usermacro', t))
            pre_of[t] = [mdef]
    cases = []
    for kind, t in texts:
        pre = pre_of.get(t, [])
        for flags in ('111', '110'):
            cases.append({'id': len(cases), 'cmds': [['evalstr_all', flags, x] for x in pre] + [['evalstr_all', flags, t], ['evalstr_all', flags, PROBE]],
                          'text': t, 'kind': kind, 'flags': flags, 'npre': len(pre)})
        # the resolved run through the normal entry point, for the model correspondence
        cases.append({'id': len(cases), 'cmds': [['evalstr', '111', x] for x in pre] + [['evalstr', '111', t], ['evalstr', '111', PROBE]],
                      'text': t, 'kind': kind, 'flags': 'model', 'npre': len(pre)})
    results = lib.run_sessions(cases)
    by_text = {}
    for case, impl, mout, cmp in results:
        rep.evaluations += 1
        r_ = lib.recheck_crash(rep, case, impl, mout, cmp)
        if r_ is None:
            continue
        case, impl, mout, cmp = r_
        if case['flags'] == 'model':
            if cmp is None:
                pass
            elif cmp.startswith('skip:'):
                rep.skip(cmp[5:])
            else:
                rep.mismatches.append({'case': case, 'impl': impl, 'model': mout, 'diff': cmp})
        else:
            by_text.setdefault(case['text'], {})[case['flags']] = impl
    for t, d in by_text.items():
        if '111' not in d or '110' not in d:
            continue
        a, b = d['111'], d['110']
        k0 = len(pre_of.get(t, []))
        ra, rb = (a.get('results') or [''])[k0:] or [''], (b.get('results') or [''])[k0:] or ['']
        dyn_ok = rb[0].startswith('ok')
        if not dyn_ok:
            # resolution may refuse a program up front; a program that fails dynamically is outside the claim
            continue
        obs_a = (lib.canon(ra[0]), lib.final_fields(a.get('final', '')).get('out'), ra[1:2])
        obs_b = (lib.canon(rb[0]), lib.final_fields(b.get('final', '')).get('out'), rb[1:2])
        if obs_a != obs_b:
            rep.oracle_failures.append({'case': {'text': t}, 'why':
                                        f'with resolution: {ra[:2]} out={lib.final_fields(a.get("final", "")).get("out_text")!r}; '
                                        f'dynamic lookup: {rb[:2]} out={lib.final_fields(b.get("final", "")).get("out_text")!r}; program {t[:400]}'})
    for kind, t in texts:
        rep.count(kind)
        rep.nontrivial(t)
    rep.samples = [t for _, t in texts[:2]] + [t for k, t in texts if k == 'macro'][:2]
    return lib.finish(rep, build, level='proof', rule=RULE, assumptions=[
        'variable names disjoint from signal names and aliases; defines in straight-line positions; no run-time eval of code that defines',
        'programs that fail under dynamic lookup are outside the claim (resolution may refuse a program up front)'])
