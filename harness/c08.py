"""C08 — the optimisation pass never changes observable behaviour."""
import itertools
import lib
import gen

PID = 'C08'
RULE = ('each evaluation is one expression over the rewritten operators (if do + * && ||) and their neighbours, run on two fresh '
        'interpreters with a trace loaded: with the optimize pass and with optimize replaced by the identity at every call site; '
        'when the unoptimised run completes, the optimised run must complete with an equal result of the same type, the same '
        'printed text, the same value of x and the same INDEX (oracle). Trees of depth <= 1 and arity <= 3 over 16 atoms '
        '(0 1 2 0.0 2.5 "" "a" #t #f x signal (print "p") (set [x 1]) (step) quoted () and (1)) are exhaustive in thorough and sampled in quick, '
        'plus depth-2/arity-2 trees and random deeper trees inside let/fn/while. The optimised run is also compared with the '
        'extracted Coq model. distinct = distinct texts; non-trivial = contains a rewritten operator')

ATOMS = ['0', '1', '2', '0.0', '2.5', '""', '"a"', '#t', '#f', 'x', 'top.a', '(print "p")', '(set [x 1])', '(step)', "'()", "'(1)"]
OPS = ['if', 'do', '+', '*', '&&', '||']
PROBE = '(list x INDEX)'


def trees1():
    for op in OPS:
        for ar in (1, 2, 3):
            for args in itertools.product(ATOMS, repeat=ar):
                yield '(%s %s)' % (op, ' '.join(args))


def targeted():
    """partial-folding shapes, always run: runs of adjacent literals next to non-literal / list / string operands"""
    out = []
    plus_atoms = ['"a"', '"b"', '1', '2', "'(1)", 'x', '(list 1 x)']
    for ar in (3, 4):
        for args in itertools.product(plus_atoms, repeat=ar):
            if ar == 4 and (args[0] != args[1] and args[2] != args[3]):
                continue
            out.append('(+ %s)' % ' '.join(args))
    mul_atoms = ['2', '3', '0', 'x', '#t', '(do (print "m") 2)']
    for args in itertools.product(mul_atoms, repeat=3):
        out.append('(* %s)' % ' '.join(args))
    for op in ('&&', '||'):
        for args in itertools.product(['0', '1', 'x', '(do (print "c") 0)', '""'], repeat=3):
            out.append('(%s %s)' % (op, ' '.join(args)))
    # an operator nested in itself: + chooses sum / concatenation / append per call, so (+ (+ x 1) "a") is not (+ x 1 "a")
    for inner in ['(+ x 1)', '(+ x x)', '(+ 1 x 2)', '(+ x "b")', "(+ x '(0))", '(+ x 0)', '(+ 0 x)']:
        for other in ['"a"', "'(7 8)", '(list x)', '2', 'x', '0', '0.0']:
            out.append('(+ %s %s)' % (inner, other))
            out.append('(+ %s %s)' % (other, inner))
            out.append('(+ %s %s %s)' % (other, inner, other))
    for inner in ['(* x 2)', '(* 2.5 x)', '(* x x)']:
        for other in ['3', '0.1', 'x', '0', '1']:
            out.append('(* %s %s)' % (inner, other))
            out.append('(* %s %s)' % (other, inner))
    # literal identities next to lists and strings: (+ xs 0) appends 0, (+ "s" 0) is "s0"
    for xs in ["'(1 2)", "'()", '"s"', '(list x)', 'x']:
        for z in ['0', '0.0', '1', '""', "'()"]:
            out.append('(+ %s %s)' % (xs, z))
            out.append('(+ %s %s)' % (z, xs))
            out.append('(* %s %s)' % (xs, z) if xs == 'x' else '(+ %s %s %s)' % (xs, z, xs))
    # branches that are equal as Python values but not as WAL values (1, 1.0, #t; 0, 0.0, #f; inside lists too), under a
    # condition that is true (x) or false (z) at run time
    same = [('1', '1.0'), ('1', '#t'), ('1.0', '#t'), ('0', '0.0'), ('0', '#f'), ('0.0', '#f'), ("'(1)", "'(1.0)"), ("'(0 1)", "'(#f #t)"),
            ('(* x 2)', '(* x 2.0)'), ('2', '2'), ('"a"', '"a"')]
    for c in ['x', 'z', '(! x)', 'top.a']:
        for a, b in same:
            out.append('(if %s %s %s)' % (c, a, b))
            out.append('(if %s %s %s)' % (c, b, a))
            out.append('(print (if %s %s %s))' % (c, a, b))
    # a condition that is not a literal, with literal / variable branches: (if c #t #f) is not c
    for c in ['x', 'z', 'top.a', '(print "p")', '(set [x 1])', '(step)', "'()", "'(1)", '(+ x 1)', '(= x 0)']:
        for a, b in itertools.product(['#t', '#f', '0', '1', 'x'], repeat=2):
            out.append('(if %s %s %s)' % (c, a, b))
    return out


def trees2(rng, n):
    out = []
    for _ in range(n):
        def t(d):
            if d == 0:
                return rng.choice(ATOMS)
            return '(%s %s %s)' % (rng.choice(OPS), t(d - 1) if rng.random() < 0.7 else rng.choice(ATOMS), t(d - 1) if rng.random() < 0.7 else rng.choice(ATOMS))
        out.append(t(2))
    return out


def deep(rng):
    def t(d):
        if d == 0 or rng.random() < 0.2:
            return rng.choice(ATOMS + ['y', '(set [y (+ y 1)])', '(print y)'])
        op = rng.choice(OPS + ['=', 'list', '!', '-'])
        if op == '!':
            return '(! (= %s %s))' % (t(d - 1), t(d - 1))
        if op == '-':
            return '(- %s)' % rng.choice(['1', 'x', 'y', '2'])
        ar = 3 if op == 'if' else rng.choice([1, 2, 2, 3])
        if op == '=':
            ar = 2
        return '(%s %s)' % (op, ' '.join(t(d - 1) for _ in range(ar)))
    body = t(rng.randrange(2, 5))
    ctx = rng.choice(['let', 'fn', 'while', 'plain', 'macro'])
    if ctx == 'let':
        return '(let ([y 0]) %s)' % body
    if ctx == 'fn':
        return '((fn [y] %s) 3)' % body
    if ctx == 'while':
        return '(let ([y 0]) (while (< y 3) (set [y (+ y 1)]) %s) y)' % body
    if ctx == 'macro':
        return '(let ([y 0]) (when (|| #f %s) (unless (&& 1 y) %s)))' % (body, rng.choice(ATOMS))
    return '(do (define y 0) %s)' % body


def run(tier, seed, replay=None):
    rep = lib.Report(PID, tier, seed)
    build = lib.Build().run()
    rep.proof = lib.compile_props(PID)
    rng = lib.rng_for(seed, PID)
    vcd, info = gen.simple_trace(rng, n=5, scopes={'top': ['clk', 'a']})
    t1 = list(trees1())
    if tier == 'quick':
        texts = rng.sample(t1, 500) + trees2(rng, 250) + [deep(rng) for _ in range(250)] + targeted()
    else:
        texts = t1 + trees2(rng, 6000) + [deep(rng) for _ in range(6000)] + targeted()
        rep.extra['exhaustive_depth1_arity3'] = len(t1)
    texts = list(dict.fromkeys(texts))
    setup = [['file', 't.vcd', vcd], ['load', 't.vcd', 'DEFAULT']]
    cases = []
    for t in texts:
        for flags in ('111', '101'):
            cases.append({'id': len(cases), 'cmds': setup + [['evalstr_all', flags, '(do (define x 5) (define z 0))'], ['evalstr_all', flags, t],
                                                             ['evalstr_all', flags, PROBE]], 'text': t, 'flags': flags})
        cases.append({'id': len(cases), 'cmds': setup + [['evalstr', '111', '(do (define x 5) (define z 0))'], ['evalstr', '111', t], ['evalstr', '111', PROBE]],
                      'text': t, 'flags': 'model'})
    results = lib.run_sessions(cases)
    by_text = {}
    for case, impl, mout, cmp in results:
        rep.evaluations += 1
        r_ = lib.recheck_crash(rep, case, impl, mout, cmp)
        if r_ is None:
            continue
        case, impl, mout, cmp = r_
        if case['flags'] == 'model':
            if cmp is None:
                pass
            elif cmp.startswith('skip:'):
                rep.skip(cmp[5:])
            else:
                rep.mismatches.append({'case': case, 'impl': impl, 'model': mout, 'diff': cmp})
        else:
            by_text.setdefault(case['text'], {})[case['flags']] = impl
    completed = 0
    for t, d in by_text.items():
        if len(d) < 2:
            continue
        a, b = d['111'], d['101']
        ra, rb = a.get('results') or [], b.get('results') or []
        if len(rb) < 5 or not rb[3].startswith('ok'):
            continue                        # the unoptimised program does not complete: outside the claim
        completed += 1
        oa = (ra[3:5], lib.final_fields(a.get('final', '')).get('out'))
        ob = (rb[3:5], lib.final_fields(b.get('final', '')).get('out'))
        if oa != ob:
            rep.oracle_failures.append({'case': {'text': t}, 'why':
                                        f'optimised: {ra[3:5]} out={lib.final_fields(a.get("final", "")).get("out_text")!r}; '
                                        f'unoptimised: {rb[3:5]} out={lib.final_fields(b.get("final", "")).get("out_text")!r}; expression {t}'})
    rep.extra['unoptimised_runs_completed'] = completed
    for t in texts:
        rep.nontrivial(t)
        rep.count(t.split()[0].lstrip('('))
    rep.samples = texts[:3] + texts[-2:]
    return lib.finish(rep, build, level='proof', rule=RULE, assumptions=[
        'the unoptimised program runs to completion (otherwise nothing is claimed)',
        'float results are compared bit for bit between the two runs; the Coq model skips float cases outside its float model'])
