"""C05 — scoped, grouped and aliased names denote the intended signal; context restored."""
import lib
import gen
from c03 import split_list

PID = 'C05'
RULE = ('each evaluation is one probe on a generated hierarchy whose signal names are prefixes/suffixes of each other and contain '
        '<n>, _ and dots: (a) ~n inside in-scope / #n inside in-group / get / alias against the fully qualified signal at every '
        'index, missing signals must raise; (b) groups against a brute-force literal computation (suffixes with regex '
        'metacharacters, with and without captured scope); (c) alias/unalias histories with references from earlier-defined '
        'functions; (d) random nestings (depth <= 4) of in-scope/in-group/in-groups/all-scopes/set-scope/unset-scope with '
        'CS/CG/LOCAL-SIGNALS/LOCAL-SCOPES probed before and after. Every command also runs on the extracted Coq model. '
        'distinct = distinct probe texts; non-trivial = all generated probes')

# a quoted bare operator name reads as the operator, so such names are not used as alias targets written 'name
OPLIKE = ('max', 'last', 'step')
STEMS = ['m0', 'm0x', 'a', 'ab', 'r', 'm1', 'max', 'last', 'step']      # some signals are spelled like operators
SEPS = ['_', '.', 'x', '']
SUFS = ['valid', 'ready', 'data']


def gen_trace(rng):
    n = rng.randrange(1, 6)
    scopes = rng.choice([['top'], ['top', 'top.u'], ['top', 'top.u<1>', 'top.u<1>.v'], ['top', 'top.u', 'top.w']])
    names = {}
    for sc in scopes:
        leafs = set()
        for _ in range(rng.randrange(3, 10)):
            st = rng.choice(STEMS)
            r_ = rng.random()
            if r_ < 0.15:
                # the suffix text in the middle of a name: such a name is in no group for that suffix
                leafs.add(st + rng.choice(SEPS) + rng.choice(SUFS) + rng.choice(['_q', '2', 'x', '_valid']))
            elif r_ < 0.8:
                leafs.add(st + rng.choice(SEPS) + rng.choice(SUFS))
            else:
                leafs.add(st + rng.choice(['', '<0>', '<1>', '_n']))
        if sc == scopes[-1]:
            leafs.add(rng.choice(OPLIKE))        # one signal of the innermost scope is spelled like an operator
        if sc == 'top' and 'top.u' in scopes and rng.random() < 0.6:
            # a sibling of the scope top.u whose name is the scope's name immediately followed by more text
            leafs.add('u' + rng.choice(['_valid', '_ready', 'x', '_q', 'data']))
        if sc == 'top':
            # numbered instances whose numbers differ in length: the result of groups is in plain string order
            # (m10_ before m2_ before m9_), whatever a "natural" order would say
            numsuf = rng.choice(SEPS[:2]) + rng.choice(SUFS)
            for st in rng.sample(['m2', 'm10', 'm9', 'm02', 'ab<10>', 'ab<9>'], rng.randrange(2, 6)):
                leafs.add(st + numsuf)
        names[sc] = sorted(leafs)
    lines = ['$timescale 1ns $end']
    opened = []
    sig = {}
    ids = {}
    k = 0
    for sc in scopes:
        parts = sc.split('.')
        while opened and opened != parts[:len(opened)]:
            lines.append('$upscope $end')
            opened.pop()
        while len(opened) < len(parts):
            lines.append('$scope module %s $end' % parts[len(opened)].replace('<', '[').replace('>', ']'))
            opened.append(parts[len(opened)])
        for leaf in names[sc]:
            idc = '%s%d' % (chr(33 + k % 90), k // 90) if k >= 90 else chr(33 + k)
            k += 1
            full = sc + '.' + leaf
            lines.append('$var wire 8 %s %s $end' % (idc, leaf.replace('<', '[').replace('>', ']')))
            sig[full] = [rng.getrandbits(8) for _ in range(n)]
            ids[full] = idc
    while opened:
        lines.append('$upscope $end')
        opened.pop()
    lines.append('$enddefinitions $end')
    for i in range(n):
        lines.append('#%d' % (i * 10))
        for full, col in sig.items():
            lines.append('b%s %s' % (format(col[i], 'b'), ids[full]))
    return '\n'.join(lines) + '\n', {'n': n, 'signals': sig, 'scopes': scopes, 'numsuf': numsuf}


def brute_groups(names, cs, sufs):
    s0 = sufs[0]
    out = set()
    for nm in names:
        if not nm.endswith(s0) or not s0:
            continue
        pre = nm[:len(nm) - len(s0)]
        if cs:
            if not pre.startswith(cs + '.'):
                continue
            mid = pre[len(cs) + 1:]
            if not mid or '.' in mid or '\\' in mid:
                continue
        if all((pre + s) in names for s in sufs[1:]):
            out.add(pre)
    return sorted(out)


def splits(full):
    """all (group prefix, leaf) with a leaf that reads as a symbol"""
    import re
    out = []
    for cut in range(1, len(full)):
        leaf = full[cut:]
        if re.match(r'^[a-zA-Z_.][\w.<>]*$', leaf) and leaf not in ('t', 'f', 'true', 'false'):      # #t and #f are the booleans
            out.append((full[:cut], leaf))
    return out


def gen_case(rng, cid):
    text, info = gen_trace(rng)
    cmds = [['file', 't.vcd', text], ['load', 't.vcd', 'DEFAULT']]
    names = sorted(info['signals'])
    probes = []      # (kind, position, payload)

    def ev(txt):
        cmds.append(['evalstr', '111', txt])
        return len(cmds) - 1

    # (a) references at every index
    refs = []
    for _ in range(6):
        full = rng.choice(names)
        sc, leaf = full.rsplit('.', 1)
        kind = rng.choice(['scope', 'group', 'get', 'getsym'])
        if kind == 'scope':
            # S.n where n itself may contain dots: any split at a dot whose left side is a real scope
            cands = [(full[:i], full[i + 1:]) for i, ch in enumerate(full) if ch == '.' and full[:i] in info['scopes']]
            s, l = rng.choice(cands)
            refs.append((f'(in-scope "{s}" ~{l})', full))
        elif kind == 'group':
            g, l = rng.choice(splits(full))
            refs.append((f'(in-group "{g}" #{l})', full))
        elif kind == 'get':
            refs.append((f'(get "{full}")', full))
        else:
            refs.append((f"(get '{full})", full))
    # a group name without a dot keeps the captured scope: ~n inside (in-scope S (in-group "g_" ..)) is still S.n
    for _ in range(2):
        full = rng.choice(names)
        cands = [(full[:i], full[i + 1:]) for i, ch in enumerate(full) if ch == '.' and full[:i] in info['scopes']]
        s_, l_ = rng.choice(cands)
        refs.append((f'(in-scope "{s_}" (in-group "{rng.choice(["g_", "p", "m0"])}" ~{l_}))', full))
    for full in names:
        sc, leaf = full.rsplit('.', 1)
        if leaf in OPLIKE:
            refs.append((f'(in-scope "{sc}" ~{leaf})', full))
            refs.append((f'(in-group "{sc}." #{leaf})', full))
    for i in range(info['n']):
        p = ev('(list ' + ' '.join(f'{r} {f}' for r, f in refs) + ')')
        probes.append(('pairs', p, [r for r, _ in refs]))
        if i < info['n'] - 1:
            ev('(step 1)')
    if info['n'] > 1:
        ev(f'(step {-(info["n"] - 1)})')
    # missing signals must raise (each in its own session: done by separate cases, see gen_missing)
    # (b) groups
    for gi in range(6):
        k = rng.randrange(1, 4)
        sufs = [rng.choice(SEPS) + rng.choice(SUFS) for _ in range(k)]
        if gi == 5:
            sufs = [info['numsuf']]
        elif rng.random() < 0.3:
            sufs[0] = rng.choice(['.valid', '.data', 'xvalid', '_ready', 'valid'])
        cs = rng.choice([''] + info['scopes']) if gi < 5 else rng.choice(['', 'top'])
        lits = ' '.join('"%s"' % s for s in sufs)
        txt = f'(groups {lits})' if not cs else f'(in-scope "{cs}" (groups {lits}))'
        p = ev(txt)
        probes.append(('groups', p, (cs, sufs, brute_groups(names, cs, sufs))))
    # (c) alias history
    al = {}
    ev('(defun rdx [] x)')
    ev("(defun rdsx [] (in-scope \"top\" ~y))")
    for _ in range(8):
        op = rng.choice(['alias', 'alias', 'realias', 'unalias', 'read'])
        if op in ('alias', 'realias'):
            tgt = rng.choice(names)
            ev(f"(alias x '{tgt})" if rng.random() < 0.5 else f'(alias x "{tgt}")')
            al['x'] = tgt
            top = [n for n in names if n.startswith('top.') and '.' not in n[4:] and n[4:] not in OPLIKE]
            if top:
                t2 = rng.choice(top)
                ev(f"(alias y '{t2[4:]})")
                al['y'] = t2
        elif op == 'unalias' and 'x' in al:
            ev('(unalias x)')
            del al['x']
        if 'x' in al:
            want = al['x']
            forms = [f'x', f"(get 'x)", '(rdx)']
            if 'y' in al:
                forms.append('(rdsx)')
            p = ev('(list ' + ' '.join(f'{f} {al["y"] if f == "(rdsx)" else want}' for f in forms) + ')')
            probes.append(('pairs', p, forms))
    # (c2) an alias named like a signal of the scope: ~n / #n follow the alias while it exists and denote S.n again after unalias
    top = [n for n in names if n.startswith('top.') and '.' not in n[4:] and n[4:] not in OPLIKE]
    if len(top) >= 2:
        b1 = rng.choice(top)
        cur = b1
        for _ in range(6):
            op = rng.choice(['alias', 'unalias', 'read', 'read'])
            if op == 'alias':
                cur = rng.choice([t for t in top if t != b1])
                ev(f"(alias {b1[4:]} '{cur[4:]})")
            elif op == 'unalias' and cur != b1:
                ev(f'(unalias {b1[4:]})')
                cur = b1
            forms = [f'(in-scope "top" ~{b1[4:]})', f'(in-group "top." #{b1[4:]})']
            p = ev('(list ' + ' '.join(f'{f} {cur}' for f in forms) + ')')
            probes.append(('pairs', p, forms))
        if cur != b1:
            ev(f'(unalias {b1[4:]})')
    # (c3) an alias spelled like an existing signal: the bare name and (get ..) both follow the alias, and the signal again after unalias
    if len(names) >= 2:
        f1, f2 = rng.sample(names, 2)
        if f1.rsplit('.', 1)[1] not in OPLIKE and f2.rsplit('.', 1)[1] not in OPLIKE:
            ev(f"(alias {f1} '{f2})")
            forms = [f1, f'(get "{f1}")', f"(get '{f1})"]
            p = ev('(list ' + ' '.join(f'{f} {f2}' for f in forms) + ')')
            probes.append(('pairs', p, forms))
            ev(f'(unalias {f1})')
            ev('(step 0)')
    # (d) context restoration
    def nest(depth):
        if depth == 0 or rng.random() < 0.2:
            return rng.choice(['(+ 1 2)', '(length LOCAL-SIGNALS)', 'CS', '(do (unset-scope) 1)',
                               '(do (set-scope %s) CS)' % rng.choice(info['scopes'])])
        k = rng.choice(['in-scope', 'in-group', 'in-groups', 'all-scopes', 'do'])
        if k == 'in-scope':
            return '(in-scope "%s" %s)' % (rng.choice(info['scopes'] + ['nosuch']), nest(depth - 1))
        if k == 'in-group':
            return '(in-group "%s" %s)' % (rng.choice(['top.m0_', 'top.u.', 'g', 'top.']), nest(depth - 1))
        if k == 'in-groups':
            return "(in-groups '(\"top.a\" \"%s\") %s)" % (rng.choice(['top.u.x', 'q']), nest(depth - 1))
        if k == 'all-scopes':
            inner = nest(depth - 1)
            if not inner.startswith('('):
                inner = f'(do {inner})'
            return f'(all-scopes {inner})'
        return '(do %s %s)' % (nest(depth - 1), nest(depth - 1))

    probe = '(list CS CG (length LOCAL-SIGNALS) LOCAL-SCOPES ' + ' '.join(f'(in "{n}" LOCAL-SIGNALS)' for n in names[:6]) + ')'
    for _ in range(6):
        pre = rng.choice(['(unset-scope)', '(set-scope %s)' % rng.choice(info['scopes'])])
        ev(pre)
        b = ev(probe)
        body = nest(rng.randrange(1, 5))
        if body.startswith('(do (set-scope') or body.startswith('(do (unset-scope') or not body.startswith('(in-') and not body.startswith('(all-'):
            body = '(in-scope "top" %s)' % body
        ev(body)
        a = ev(probe)
        probes.append(('same', (b, a), body))
    return {'id': cid, 'cmds': cmds, 'probes': probes}


def gen_missing(rng, cid):
    text, info = gen_trace(rng)
    names = sorted(info['signals'])
    full = rng.choice(names)
    bad = full + rng.choice(['q', '_x', '.zz'])
    sib = [n[5:] for n in names if n.startswith('top.u') and '.' not in n[5:] and n[5:] and 'top.u' in info['scopes']
           and ('top.u.' + n[5:]) not in info['signals']]
    if sib and rng.random() < 0.5:
        # S is a real scope, S.n does not exist, but S immediately followed by n does: still an error
        form = f'(in-scope "top.u" ~{rng.choice(sib)})'
        return {'id': cid, 'cmds': [['file', 't.vcd', text], ['load', 't.vcd', 'DEFAULT'], ['evalstr', '111', form]],
                'probes': [('raises', 2, form)]}
    form = rng.choice([f'(in-scope "top" ~{bad[4:]})', f'(in-group "top." #{bad[4:]})', f'(get "{bad}")', f"(do (alias zz '{bad}) zz)",
                       f'(in-scope "{full}" ~nosuch)'])
    return {'id': cid, 'cmds': [['file', 't.vcd', text], ['load', 't.vcd', 'DEFAULT'], ['evalstr', '111', form]],
            'probes': [('raises', 2, form)]}


def oracle(case, impl):
    res = impl.get('results') or []
    for kind, pos, payload in case['probes']:
        try:
            if kind == 'raises':
                if len(res) > pos and res[pos].startswith('ok'):
                    return f'{payload} names a signal that does not exist but yielded {res[pos]}'
                continue
            last = pos[1] if isinstance(pos, tuple) else pos
            if len(res) <= last:
                return f'session stopped at {res[-1:]} before probe {payload!r:.200}'
            if kind == 'pairs':
                el = split_list(res[pos])
                for k in range(0, len(el), 2):
                    if lib.canon(el[k]) != lib.canon(el[k + 1]):
                        return f'{payload[k // 2]} = {el[k]} but the full name reads {el[k + 1]}'
            elif kind == 'groups':
                cs, sufs, want = payload
                w = 'ok [ ' + ''.join('S%s ' % lib.hx(p) for p in want) + ']'
                if lib.canon(res[pos]) != lib.canon(w):
                    return f'(groups {sufs}) with scope {cs!r} = {res[pos]} expected {want}'
            elif kind == 'same':
                if res[pos[0]] != res[pos[1]]:
                    return f'context after {payload} is {res[pos[1]]}, before it was {res[pos[0]]}'
        except (AssertionError, IndexError) as ex:
            return f'unparsable observation {ex!r}'
    return None


def run(tier, seed, replay=None):
    rep = lib.Report(PID, tier, seed)
    build = lib.Build().run()
    rep.proof = lib.compile_props(PID)
    rng = lib.rng_for(seed, PID)
    n = 48 if tier == 'quick' else 9600
    cases = [gen_case(rng, c) for c in range(n)] + [gen_missing(rng, n + c) for c in range(n // 2)]
    results = lib.run_sessions(cases)
    lib.std_checks(rep, results, oracle)
    for c in cases:
        for kind, pos, payload in c['probes']:
            rep.count(kind)
            rep.nontrivial((kind, repr(payload)))
    rep.evaluations = sum(len(c['probes']) for c in cases)
    rep.samples = [repr(p[2])[:200] for c in cases[:2] for p in c['probes'][::7][:4]]
    return lib.finish(rep, build, level='proof', rule=RULE, assumptions=[
        'single trace (tid-free names); non-empty suffixes; LOCAL-SIGNALS is compared as a set (length and membership)'])
